//! Session-layer sub-checks of C03 / C04: the same shapes through `GrafeoDB::new_in_memory()` and
//! several `Session`s (begin_tx / `MATCH (n:N) WHERE n.k = K SET n.x = V` / `MATCH … RETURN n.x` / commit /
//! rollback).
//!
//! The order-based model of `c03` decides every commit. Strict: a commit is never refused unless the
//! model refuses it (in particular never because of a writer that committed before the transaction
//! began), and never with another error. Known finding (R4): the statements never reach
//! `TransactionManager::record_write` / `record_read`, so a commit the model refuses is accepted. That
//! divergence is classified by call site (the manager's write set of the transaction is empty although
//! its SET demonstrably changed the node) and reported once per history, at the end, so that the strict
//! checks run over the whole history (after a divergence the model follows the implementation).

use proptest::prelude::*;
use serde::{Deserialize, Serialize};

use grafeo_common::types::{TxId, Value};
use grafeo_engine::transaction::IsolationLevel;
use grafeo_engine::{GrafeoDB, Session};

use super::{EK, MState, Model, ROp, level_name};
use crate::driver::{CaseResult, Failure, Run, fail, guard, hash_of, ok};

#[derive(Debug, Clone, Copy, PartialEq, Eq, Hash, Serialize, Deserialize)]
pub enum SOp {
    Begin { s: u8, level: u8 },
    Set { s: u8, node: u8, val: i8 },
    Read { s: u8, node: u8 },
    Delete { s: u8, node: u8 },
    Commit { s: u8 },
    Rollback { s: u8 },
}

#[derive(Debug, Clone, PartialEq, Eq, Hash, Serialize, Deserialize)]
pub struct SessionCase {
    pub n_sessions: u8,
    pub n_nodes: u8,
    pub ops: Vec<SOp>,
}

fn level_of(l: u8) -> IsolationLevel {
    match l {
        0 => IsolationLevel::ReadCommitted,
        1 => IsolationLevel::SnapshotIsolation,
        _ => IsolationLevel::Serializable,
    }
}

fn ek(e: &grafeo_common::utils::error::Error) -> EK {
    use grafeo_common::utils::error::{Error, TransactionError};
    match e {
        Error::Transaction(TransactionError::WriteConflict(_)) => EK::WriteConflict,
        Error::Transaction(TransactionError::SerializationFailure(_)) => EK::Serialization,
        Error::Transaction(TransactionError::InvalidState(_)) => EK::InvalidState,
        _ => EK::Other,
    }
}

pub fn session_strategy(levels: &'static [u8], read_weight: u32, max_len: usize) -> impl Strategy<Value = SessionCase> {
    let lv = move || proptest::sample::select(levels);
    let op = move || {
        prop_oneof![
            3 => (0u8..3, lv()).prop_map(|(s, level)| SOp::Begin { s, level }),
            5 => (0u8..3, 0u8..2, 1i8..100).prop_map(|(s, node, val)| SOp::Set { s, node, val }),
            read_weight => (0u8..3, 0u8..2).prop_map(|(s, node)| SOp::Read { s, node }),
            1 => (0u8..3, 0u8..2).prop_map(|(s, node)| SOp::Delete { s, node }),
            3 => (0u8..3).prop_map(|s| SOp::Commit { s }),
            1 => (0u8..3).prop_map(|s| SOp::Rollback { s }),
        ]
    };
    let seeded = move || {
        prop_oneof![
            // lost update through two sessions
            (lv(), lv(), 0u8..2).prop_map(|(l0, l1, node)| vec![
                SOp::Begin { s: 0, level: l0 },
                SOp::Begin { s: 1, level: l1 },
                SOp::Read { s: 0, node },
                SOp::Read { s: 1, node },
                SOp::Set { s: 0, node, val: 11 },
                SOp::Set { s: 1, node, val: 22 },
                SOp::Commit { s: 0 },
                SOp::Commit { s: 1 },
            ]),
            // write skew through two sessions
            (lv(), lv()).prop_map(|(l0, l1)| vec![
                SOp::Begin { s: 0, level: l0 },
                SOp::Begin { s: 1, level: l1 },
                SOp::Read { s: 0, node: 0 },
                SOp::Read { s: 0, node: 1 },
                SOp::Read { s: 1, node: 0 },
                SOp::Read { s: 1, node: 1 },
                SOp::Set { s: 0, node: 0, val: 11 },
                SOp::Set { s: 1, node: 1, val: 22 },
                SOp::Commit { s: 0 },
                SOp::Commit { s: 1 },
            ]),
            // sequential writers of one node (must both commit)
            (lv(), lv(), 0u8..2).prop_map(|(l0, l1, node)| vec![
                SOp::Begin { s: 0, level: l0 },
                SOp::Set { s: 0, node, val: 11 },
                SOp::Commit { s: 0 },
                SOp::Begin { s: 1, level: l1 },
                SOp::Read { s: 1, node },
                SOp::Set { s: 1, node, val: 22 },
                SOp::Commit { s: 1 },
            ]),
        ]
    };
    let tail = move || proptest::collection::vec(op(), 0..max_len);
    (2u8..=3, 1u8..=2, prop_oneof![5 => tail(), 5 => (seeded(), tail()).prop_map(|(mut a, b)| { a.extend(b); a })])
        .prop_map(|(n_sessions, n_nodes, ops)| SessionCase { n_sessions, n_nodes, ops })
}

fn int(v: &Value) -> Option<i64> {
    match v {
        Value::Int64(i) => Some(*i),
        _ => None,
    }
}

struct Sess {
    session: Session,
    /// model transaction index and manager transaction id of the open transaction
    tx: Option<(u8, TxId)>,
    /// the open transaction deleted a node
    deleted: bool,
}

/// Which property's known-finding signature a tolerated divergence belongs to.
#[derive(Debug, Clone, Copy, PartialEq, Eq)]
enum Divergence {
    LostUpdate,
    LostUpdateDelete,
    StaleRead,
}

pub fn check_sessions(case: &SessionCase) -> CaseResult {
    let mut resolved: Vec<String> = Vec::new();
    let n_s = case.n_sessions.clamp(2, 3);
    let n_n = case.n_nodes.clamp(1, 2);
    let db = guard("new_in_memory", GrafeoDB::new_in_memory)?;
    for k in 0..n_n {
        guard("create_node_with_props", || {
            db.create_node_with_props(&["N"], [("k", Value::Int64(i64::from(k))), ("x", Value::Int64(0))])
        })?;
    }
    let tm = db.verif_tx_manager().clone();
    let mut sess: Vec<Sess> = Vec::new();
    for _ in 0..n_s {
        sess.push(Sess { session: guard("session", || db.session())?, tx: None, deleted: false });
    }
    let mut m = Model::default();
    let mut divergences: Vec<(Divergence, String)> = Vec::new();
    let mut overlapping_same_node_commits = false;
    let mut rw_antidep = false;
    let mut sequential_same_node = false;

    for (i, op) in case.ops.iter().enumerate() {
        match *op {
            SOp::Begin { s, level } => {
                let s = (s % n_s) as usize;
                if sess[s].tx.is_some() {
                    continue;
                }
                let level = level.min(2);
                let r = guard("begin_tx_with_isolation", || sess[s].session.begin_tx_with_isolation(level_of(level)))?;
                if let Err(e) = r {
                    return fail("c03/session/begin-failed", format!("{resolved:?}: step {i}: begin_tx failed: {e}"));
                }
                let Some(id) = tm.last_assigned_tx_id() else {
                    return fail("c03/session/no-tx-id", format!("{resolved:?}: step {i}: no transaction id after begin_tx"));
                };
                m.step(ROp::Begin(level));
                let t = (m.txs.len() - 1) as u8;
                sess[s].tx = Some((t, id));
                sess[s].deleted = false;
                resolved.push(format!("s{s}:begin({})=t{t}", level_name(level)));
            }
            SOp::Set { s, node, val } => {
                let s = (s % n_s) as usize;
                let node = node % n_n;
                let Some((t, _)) = sess[s].tx else { continue };
                let q = format!("MATCH (n:N) WHERE n.k = {node} SET n.x = {val}");
                let r = guard("execute SET", || sess[s].session.execute(&q))?;
                if let Err(e) = r {
                    return fail("c03/session/set-failed", format!("{resolved:?}: step {i}: {q}: {e}"));
                }
                // the statement counts as a modification only if the session itself sees its effect
                let q2 = format!("MATCH (n:N) WHERE n.k = {node} RETURN n.x");
                let back = guard("execute RETURN", || sess[s].session.execute(&q2))?;
                let seen = match &back {
                    Ok(res) => res.rows.len() == 1 && res.rows[0].first().and_then(int) == Some(i64::from(val)),
                    Err(_) => false,
                };
                resolved.push(format!("s{s}:set(n{node}={val}){}", if seen { "" } else { "[no visible effect]" }));
                if seen {
                    m.step(ROp::Write(t, node));
                } else {
                    m.pos += 1;
                }
            }
            SOp::Read { s, node } => {
                let s = (s % n_s) as usize;
                let node = node % n_n;
                let Some((t, _)) = sess[s].tx else { continue };
                let q = format!("MATCH (n:N) WHERE n.k = {node} RETURN n.x");
                let r = guard("execute RETURN", || sess[s].session.execute(&q))?;
                match r {
                    Ok(res) => {
                        resolved.push(format!("s{s}:read(n{node})->{} rows", res.rows.len()));
                        if res.rows.len() == 1 {
                            m.step(ROp::Read(t, node));
                        } else {
                            m.pos += 1;
                        }
                    }
                    Err(e) => return fail("c03/session/read-failed", format!("{resolved:?}: step {i}: {q}: {e}")),
                }
            }
            SOp::Delete { s, node } => {
                let s = (s % n_s) as usize;
                let node = node % n_n;
                let Some((t, _)) = sess[s].tx else { continue };
                let q2 = format!("MATCH (n:N) WHERE n.k = {node} RETURN n.x");
                let before = guard("execute RETURN", || sess[s].session.execute(&q2))?.map(|r| r.rows.len()).unwrap_or(0);
                let q = format!("MATCH (n:N) WHERE n.k = {node} DETACH DELETE n");
                let r = guard("execute DELETE", || sess[s].session.execute(&q))?;
                if let Err(e) = r {
                    return fail("c03/session/delete-failed", format!("{resolved:?}: step {i}: {q}: {e}"));
                }
                let after = guard("execute RETURN", || sess[s].session.execute(&q2))?.map(|r| r.rows.len()).unwrap_or(1);
                let seen = before == 1 && after == 0;
                resolved.push(format!("s{s}:delete(n{node}){}", if seen { "" } else { "[no visible effect]" }));
                if seen {
                    m.step(ROp::Write(t, node));
                    sess[s].deleted = true;
                } else {
                    m.pos += 1;
                }
            }
            SOp::Rollback { s } => {
                let s = (s % n_s) as usize;
                let Some((t, _)) = sess[s].tx.take() else { continue };
                let r = guard("rollback", || sess[s].session.rollback())?;
                if let Err(e) = r {
                    return fail("c03/session/rollback-failed", format!("{resolved:?}: step {i}: {e}"));
                }
                m.step(ROp::Abort(t));
                resolved.push(format!("s{s}:rollback"));
            }
            SOp::Commit { s } => {
                let s = (s % n_s) as usize;
                let Some((t, id)) = sess[s].tx.take() else { continue };
                let d = m.decide(t as usize);
                let me = m.txs[t as usize].clone();
                let registered = guard("get_write_set", || tm.get_write_set(id))?.map(|w| w.len()).unwrap_or(usize::MAX);
                let r = guard("commit", || sess[s].session.commit())?;
                let deleted = sess[s].deleted;
                resolved.push(format!("s{s}:commit->{}", if r.is_ok() { "ok" } else { "err" }));
                if d.ww {
                    overlapping_same_node_commits = true;
                }
                if d.stale_read {
                    rw_antidep = true;
                }
                if d.ww_earlier {
                    sequential_same_node = true;
                }
                let detail = |what: &str| {
                    format!(
                        "{resolved:?}: step {i}: commit of t{t} ({}; model ws={:#b} rs={:#b}; manager write set has {registered} entries) {what}; model {d:?}",
                        level_name(me.level),
                        me.ws,
                        me.rs
                    )
                };
                match r {
                    Ok(()) => {
                        if d.ww {
                            if registered != 0 {
                                return fail(
                                    "c03/session/conflicting-writers-both-committed",
                                    detail("must be refused (WriteConflict) but committed"),
                                );
                            }
                            divergences.push((
                                if deleted { Divergence::LostUpdateDelete } else { Divergence::LostUpdate },
                                detail("must be refused (WriteConflict) but committed: lost update"),
                            ));
                        } else if d.rw {
                            divergences.push((
                                Divergence::StaleRead,
                                detail("Serializable writer with a stale read must be refused (SerializationFailure) but committed"),
                            ));
                        }
                        // follow the implementation
                        m.pos += 1;
                        let pos = m.pos - 1;
                        let tx = &mut m.txs[t as usize];
                        tx.attempted = true;
                        tx.state = MState::Committed;
                        tx.commit_pos = Some(pos);
                    }
                    Err(e) => {
                        let k = ek(&e);
                        // a refused Session::commit drops the session's transaction handle; the manager keeps it Active
                        m.pos += 1;
                        m.txs[t as usize].attempted = true;
                        match k {
                            EK::WriteConflict if d.ww => {}
                            EK::Serialization if d.rw => {}
                            EK::WriteConflict if d.ww_earlier => {
                                return fail(
                                    "c03/session/refused-by-writer-committed-before-begin",
                                    detail(&format!("refused ({e}) although every writer of its nodes committed before it began")),
                                );
                            }
                            EK::Serialization if me.level == 2 && me.ws == 0 => {
                                return fail("c04/session/read-only-refused", detail(&format!("read-only transaction refused ({e})")));
                            }
                            EK::WriteConflict | EK::Serialization => {
                                return fail("c03/session/refused-without-conflict", detail(&format!("refused ({e}) without a conflict")));
                            }
                            _ => return fail("c03/session/commit-error", detail(&format!("unexpected error {e}"))),
                        }
                    }
                }
            }
        }
    }
    // leave no open transactions behind (not part of the property)
    for s in &mut sess {
        if s.tx.take().is_some() {
            let _ = guard("rollback", || s.session.rollback())?;
        }
    }
    drop(sess);
    drop(db);

    if let Some((dv, what)) = divergences.first() {
        let sig = match dv {
            Divergence::LostUpdate => "c03/session/MATCH-SET/write-not-registered",
            Divergence::LostUpdateDelete => "c03/session/MATCH-DELETE/write-not-registered",
            Divergence::StaleRead => "c04/session/MATCH-RETURN/serializable-read-not-registered",
        };
        return Err(Failure { signature: sig.into(), what: what.clone() });
    }
    let class = match (sequential_same_node, rw_antidep) {
        (true, true) => "sequential-writers+stale-read-tolerated-level",
        (true, false) => "sequential-writers",
        (false, true) => "stale-read-tolerated-level",
        (false, false) => "no-interaction",
    };
    ok(sequential_same_node || rw_antidep || overlapping_same_node_commits, class, hash_of(case))
}

pub static LEVELS_SI: [u8; 3] = [1, 1, 0];
pub static LEVELS_SER: [u8; 5] = [2, 2, 2, 2, 1];

pub fn run_c03(r: &mut Run) {
    let max_len = if r.is_thorough() { 30 } else { 16 };
    r.subcheck("sessions", r.cases(8_000, 150_000), move || session_strategy(&LEVELS_SI, 1, max_len), check_sessions);
}

pub fn run_c04(r: &mut Run) {
    let max_len = if r.is_thorough() { 30 } else { 16 };
    r.subcheck("sessions", r.cases(8_000, 150_000), move || session_strategy(&LEVELS_SER, 4, max_len), check_sessions);
}

