//! C03 (c) — `ParallelExecutor::execute_batch` (Block-STM inspired batch execution, feature `parallel`).
//!
//! What the executor is: it owns no data. The caller hands it a batch of operation texts and ONE closure
//! `execute_fn(batch_index, text, &mut ExecutionResult)` that performs an operation and *declares* what it
//! read (`record_read`) and wrote (`record_write`). The executor runs the closure for every index in parallel,
//! re-runs it for every index whose reads were written by an earlier index ("re-execution"), or runs everything
//! again sequentially when too many indexes conflict. So the closure must be re-runnable for an index (a later
//! run of index i replaces what the earlier run of i did), and the only way the algorithm can make sense is the
//! Block-STM arrangement: writes go to a multi-version memory keyed by (entity, batch index), a read by index i
//! returns the version of the highest index below i (else the value before the batch), and the state after the
//! batch is, per entity, the version of the highest index ("commit in transaction order").
//!
//! The harness closure is exactly that multi-version memory over <= 6 entities. An operation reads its read
//! set, computes a value from (index, values read), and either fails (never / always / when the value is odd)
//! or writes a function of the value to its write set plus, when the value is even, to one conditional entity
//! (a write set that depends on what was read). Read stamps (index of the version read + 1, 0 = initial value)
//! are recorded as the `EpochId` of `record_read`, so the recorded read set says which versions the *last* run
//! of an index saw.
//!
//! Oracle: the same operations executed one after the other in batch order (model + metamorphic: the answer
//! must not depend on workers, timing, or which of the three execution paths the executor takes):
//!  * `results` has one entry per request, at its own position (`batch_index == position`): nothing lost, nothing twice;
//!  * every request ends in a terminal status (`NeedsRevalidation` is not one); counters agree with the statuses;
//!  * a request is `Failed` iff it fails sequentially, with the closure's own error text; no error text on a success;
//!  * the value computed by the last run of every request, the read stamps and write set it recorded, and the
//!    committed state equal the sequential ones;
//!  * every request was run at least once, with its own text; no panic; no hang (the batch runs on a helper
//!    thread; a hang is "no closure call started for 60 s while the batch is unfinished" or "more closure
//!    calls than any bounded schedule can make", never a plain wall-clock budget).
//!
//! Each harness thread keeps one helper thread that owns one `ParallelExecutor` per worker count (a rayon
//! pool per case costs milliseconds of thread creation; pools carry nothing from one batch to the next).

use std::collections::BTreeMap;
use std::sync::atomic::{AtomicBool, AtomicU64, Ordering};
use std::sync::{Arc, Mutex, mpsc};
use std::time::{Duration, Instant};

use proptest::prelude::*;
use serde::{Deserialize, Serialize};

use grafeo_common::types::EpochId;
use grafeo_engine::transaction::parallel::ExecutionResult;
use grafeo_engine::transaction::{BatchRequest, BatchResult, ExecutionStatus, ParallelExecutor};

use super::entity;
use crate::driver::{CaseResult, Failure, Run, fail, guard, hash_of, ok};

pub const N_ENT: usize = 6;
pub const MAX_OPS: usize = 12;

// ------------------------------------------------------------------------------------------------
// Case
// ------------------------------------------------------------------------------------------------

#[derive(Debug, Clone, PartialEq, Eq, Hash, Serialize, Deserialize)]
pub struct PxOp {
    /// entities read (0..6), ascending, distinct
    pub reads: Vec<u8>,
    /// entities always written (unless the operation fails)
    pub writes: Vec<u8>,
    /// entity written only when the computed value is even (write set depends on the reads)
    #[serde(default)]
    pub cond_write: Option<u8>,
    /// 0 never fails, 1 always fails, 2 fails when the computed value is odd (depends on the reads)
    #[serde(default)]
    pub fail: u8,
    /// scheduling noise before the reads: 0 none, 1 one yield, 2 sixteen yields, 3 sleep 30 us
    #[serde(default)]
    pub delay: u8,
}

#[derive(Debug, Clone, PartialEq, Eq, Hash, Serialize, Deserialize)]
pub struct PxCase {
    pub workers: u8,
    pub ops: Vec<PxOp>,
}

fn render(case: &PxCase) -> String {
    let ops: Vec<String> = case
        .ops
        .iter()
        .enumerate()
        .map(|(i, o)| {
            let mut s = format!("{i}:r{:?}w{:?}", o.reads, o.writes);
            if let Some(c) = o.cond_write {
                s.push_str(&format!("c{c}"));
            }
            match o.fail {
                0 => {}
                1 => s.push_str("F!"),
                _ => s.push_str("F?"),
            }
            s
        })
        .collect();
    format!("workers={} [{}]", case.workers, ops.join(" "))
}

fn op_text(i: usize, o: &PxOp) -> String {
    format!("op{i} r{:?} w{:?} c{:?} f{}", o.reads, o.writes, o.cond_write, o.fail)
}

// ------------------------------------------------------------------------------------------------
// Operation semantics (shared by the closure handed to the executor and by the sequential reference)
// ------------------------------------------------------------------------------------------------

fn base(e: u8) -> i64 {
    1000 + i64::from(e)
}

fn mix(idx: usize, vals: &[i64]) -> i64 {
    let mut h: u64 = 0x9e37_79b9_7f4a_7c15 ^ (idx as u64).wrapping_mul(0x1000_0000_01b3);
    for v in vals {
        h = (h ^ (*v as u64)).wrapping_mul(0x1000_0000_01b3);
        h ^= h >> 29;
    }
    h ^= h >> 17;
    (h % 1_000_003) as i64
}

fn written_value(v: i64, e: u8) -> i64 {
    v * 8 + i64::from(e)
}

/// What one run of an operation did.
#[derive(Debug, Clone, PartialEq, Eq, Default)]
struct RunOut {
    v: i64,
    failed: bool,
    /// (entity, stamp): stamp = index of the version read + 1, 0 = value before the batch
    reads: Vec<(u8, u64)>,
    writes: Vec<u8>,
}

/// Multi-version memory: per entity, the versions written by batch indexes.
struct Mem {
    versions: Vec<Mutex<BTreeMap<usize, i64>>>,
    last: Vec<Mutex<Option<RunOut>>>,
    /// the first run of every index (to measure how often the optimistic run really saw stale values)
    first: Vec<Mutex<Option<RunOut>>>,
    calls: Vec<AtomicU64>,
    /// closure calls started (progress indicator for the hang decision)
    progress: AtomicU64,
    wrong_text: AtomicBool,
}

trait Recorder {
    fn read(&mut self, e: u8, stamp: u64);
    fn write(&mut self, e: u8);
    fn failed(&mut self, msg: String);
}

impl Recorder for ExecutionResult {
    fn read(&mut self, e: u8, stamp: u64) {
        self.record_read(entity(e), EpochId::new(stamp));
    }
    fn write(&mut self, e: u8) {
        self.record_write(entity(e));
    }
    fn failed(&mut self, msg: String) {
        self.mark_failed(msg);
    }
}

#[derive(Default)]
struct ModelRec {
    error: Option<String>,
}

impl Recorder for ModelRec {
    fn read(&mut self, _e: u8, _stamp: u64) {}
    fn write(&mut self, _e: u8) {}
    fn failed(&mut self, msg: String) {
        self.error = Some(msg);
    }
}

fn error_text(idx: usize, v: i64) -> String {
    format!("op{idx} refused (value {v})")
}

impl Mem {
    fn new(n: usize) -> Self {
        Mem {
            versions: (0..N_ENT).map(|_| Mutex::new(BTreeMap::new())).collect(),
            last: (0..n).map(|_| Mutex::new(None)).collect(),
            first: (0..n).map(|_| Mutex::new(None)).collect(),
            calls: (0..n).map(|_| AtomicU64::new(0)).collect(),
            progress: AtomicU64::new(0),
            wrong_text: AtomicBool::new(false),
        }
    }

    /// One run of operation `idx`. Replaces whatever an earlier run of `idx` wrote.
    fn exec(&self, idx: usize, op: &PxOp, noise: bool, rec: &mut dyn Recorder) {
        self.progress.fetch_add(1, Ordering::SeqCst);
        self.calls[idx].fetch_add(1, Ordering::SeqCst);
        if noise {
            match op.delay {
                0 => {}
                1 => std::thread::yield_now(),
                2 => (0..16).for_each(|_| std::thread::yield_now()),
                _ => std::thread::sleep(Duration::from_micros(30)),
            }
        }
        for vs in &self.versions {
            vs.lock().unwrap().remove(&idx);
        }
        let mut out = RunOut::default();
        let mut vals = Vec::with_capacity(op.reads.len());
        for &e in &op.reads {
            let (val, stamp) = {
                let vs = self.versions[e as usize].lock().unwrap();
                match vs.range(..idx).next_back() {
                    Some((w, v)) => (*v, *w as u64 + 1),
                    None => (base(e), 0),
                }
            };
            vals.push(val);
            out.reads.push((e, stamp));
            rec.read(e, stamp);
        }
        out.v = mix(idx, &vals);
        let fails = op.fail == 1 || (op.fail >= 2 && out.v % 2 == 1);
        if fails {
            out.failed = true;
            rec.failed(error_text(idx, out.v));
        } else {
            let mut ws: Vec<u8> = op.writes.clone();
            if let Some(c) = op.cond_write
                && out.v % 2 == 0
                && !ws.contains(&c)
            {
                ws.push(c);
            }
            for &e in &ws {
                self.versions[e as usize].lock().unwrap().insert(idx, written_value(out.v, e));
                rec.write(e);
            }
            ws.sort_unstable();
            out.writes = ws;
        }
        out.reads.sort_unstable();
        out.reads.dedup();
        self.first[idx].lock().unwrap().get_or_insert_with(|| out.clone());
        *self.last[idx].lock().unwrap() = Some(out);
    }

    /// Committed state: per entity the version of the highest index, else the initial value.
    fn committed(&self) -> Vec<i64> {
        (0..N_ENT)
            .map(|e| self.versions[e].lock().unwrap().iter().next_back().map_or(base(e as u8), |(_, v)| *v))
            .collect()
    }

    fn last_runs(&self) -> Vec<Option<RunOut>> {
        self.last.iter().map(|m| m.lock().unwrap().clone()).collect()
    }
}

/// The reference: the same operations, one after the other, in batch order.
fn sequential(case: &PxCase) -> (Vec<RunOut>, Vec<Option<String>>, Vec<i64>) {
    let mem = Mem::new(case.ops.len());
    let mut errors = Vec::new();
    for (i, op) in case.ops.iter().enumerate() {
        let mut rec = ModelRec::default();
        mem.exec(i, op, false, &mut rec);
        errors.push(rec.error);
    }
    let runs = mem.last_runs().into_iter().map(|r| r.expect("sequential run recorded")).collect();
    (runs, errors, mem.committed())
}

/// Some operation reads an entity that an earlier operation may write.
fn static_dependencies(case: &PxCase) -> usize {
    let mut may_write = [false; N_ENT];
    let mut deps = 0;
    for op in &case.ops {
        if op.reads.iter().any(|e| may_write[*e as usize]) {
            deps += 1;
        }
        if op.fail != 1 {
            for e in op.writes.iter().chain(op.cond_write.iter()) {
                may_write[*e as usize] = true;
            }
        }
    }
    deps
}

// ------------------------------------------------------------------------------------------------
// The check
// ------------------------------------------------------------------------------------------------

const SIG: &str = "c03/parallel_executor";
/// no closure call started for this long while the batch is unfinished = hang
const STALL: Duration = Duration::from_secs(60);

fn status_name(s: ExecutionStatus) -> &'static str {
    match s {
        ExecutionStatus::Success => "Success",
        ExecutionStatus::NeedsRevalidation => "NeedsRevalidation",
        ExecutionStatus::Reexecuted => "Reexecuted",
        ExecutionStatus::Failed => "Failed",
    }
}

/// One batch handed to the helper thread.
struct Job {
    workers: usize,
    ops: Arc<Vec<PxOp>>,
    mem: Arc<Mem>,
    reply: mpsc::Sender<Result<BatchResult, Failure>>,
}

/// The helper thread of one harness thread. It owns one `ParallelExecutor` per worker count (building a
/// rayon pool per case costs milliseconds of thread creation; the pools carry no state from batch to batch)
/// and runs the batches it is sent. A helper that hangs is abandoned with its pools and replaced.
struct Helper {
    jobs: mpsc::Sender<Job>,
}

impl Helper {
    fn start() -> Helper {
        let (jobs, inbox) = mpsc::channel::<Job>();
        std::thread::Builder::new()
            .name("c03-parallel-executor".into())
            .spawn(move || {
                let mut executors: Vec<Option<ParallelExecutor>> = (0..=8).map(|_| None).collect();
                while let Ok(job) = inbox.recv() {
                    let Job { workers, ops, mem, reply } = job;
                    let r = guard("ParallelExecutor::execute_batch", || {
                        let executor = executors[workers].get_or_insert_with(|| ParallelExecutor::new(workers));
                        let texts: Vec<String> = ops.iter().enumerate().map(|(i, o)| op_text(i, o)).collect();
                        let batch = BatchRequest::new(texts);
                        executor.execute_batch(batch, |idx, text, res| {
                            if idx >= ops.len() || text != op_text(idx, &ops[idx]) {
                                mem.wrong_text.store(true, Ordering::SeqCst);
                            }
                            if idx < ops.len() {
                                mem.exec(idx, &ops[idx], true, res);
                            }
                        })
                    });
                    if r.is_err() {
                        // a panic may have left the pool in any state: start over with fresh ones
                        executors.iter_mut().for_each(|e| *e = None);
                    }
                    let _ = reply.send(r);
                }
            })
            .expect("spawn helper thread");
        Helper { jobs }
    }
}

thread_local! {
    static HELPER: std::cell::RefCell<Option<Helper>> = const { std::cell::RefCell::new(None) };
}

fn run_batch(case: &PxCase, mem: &Arc<Mem>) -> Result<BatchResult, Failure> {
    let n = case.ops.len();
    let workers = usize::from(case.workers).clamp(1, 8);
    let (reply, rx) = mpsc::channel();
    let job = Job { workers, ops: Arc::new(case.ops.clone()), mem: Arc::clone(mem), reply };
    HELPER.with(|h| {
        let mut h = h.borrow_mut();
        let helper = h.get_or_insert_with(Helper::start);
        if let Err(mpsc::SendError(job)) = helper.jobs.send(job) {
            // the helper is gone (cannot happen short of a panic outside `guard`): replace it
            let fresh = Helper::start();
            let _ = fresh.jobs.send(job);
            *h = Some(fresh);
        }
    });
    let abandon = || HELPER.with(|h| *h.borrow_mut() = None);

    // far above any bounded schedule (first run + a bounded number of re-executions + the sequential fallback)
    let cap = 64 * n as u64 + 64;
    let mut seen = 0u64;
    let mut since = Instant::now();
    loop {
        match rx.recv_timeout(Duration::from_millis(250)) {
            Ok(r) => return r,
            Err(mpsc::RecvTimeoutError::Timeout) => {
                let p = mem.progress.load(Ordering::SeqCst);
                if p > cap {
                    abandon();
                    return fail(
                        format!("{SIG}/hang"),
                        format!("{}: {p} closure calls for {n} requests and the batch is still running (livelock)", render(case)),
                    );
                }
                if p != seen {
                    seen = p;
                    since = Instant::now();
                } else if since.elapsed() > STALL {
                    abandon();
                    return fail(
                        format!("{SIG}/hang"),
                        format!("{}: no closure call started for {STALL:?} after {p} calls and execute_batch has not returned", render(case)),
                    );
                }
            }
            Err(mpsc::RecvTimeoutError::Disconnected) => {
                abandon();
                return fail(format!("{SIG}/helper-died"), format!("{}: helper thread ended without an answer", render(case)));
            }
        }
    }
}

pub fn check_parallel_executor(case: &PxCase) -> CaseResult {
    let n = case.ops.len();
    if n == 0 || n > 64 || case.ops.iter().any(|o| o.reads.iter().chain(&o.writes).chain(o.cond_write.iter()).any(|e| *e as usize >= N_ENT)) {
        return ok(false, "malformed-case", hash_of(case));
    }
    let mem = Arc::new(Mem::new(n));
    let res = run_batch(case, &mem)?;
    let (want, want_err, want_state) = sequential(case);
    let last = mem.last_runs();
    let calls: Vec<u64> = mem.calls.iter().map(|c| c.load(Ordering::SeqCst)).collect();

    let path = if !res.parallel_executed {
        if n < 4 { "small-sequential" } else { "fallback-sequential" }
    } else if res.reexecution_count > 0 {
        "parallel-reexecuted"
    } else {
        "parallel-clean"
    };
    let summary = || {
        let st: Vec<String> = res
            .results
            .iter()
            .map(|r| format!("{}:{}x{}{}", r.batch_index, status_name(r.status), r.reexecution_count, r.error.as_ref().map_or(String::new(), |e| format!("({e})"))))
            .collect();
        format!(
            "{} | path {path}, success_count {}, failure_count {}, reexecution_count {}, closure calls {calls:?}, results [{}]",
            render(case),
            res.success_count,
            res.failure_count,
            res.reexecution_count,
            st.join(" ")
        )
    };

    // nothing lost, nothing twice, in batch order
    if res.results.len() != n {
        return fail(format!("{SIG}/result-count"), format!("{}: {} results for {n} requests", summary(), res.results.len()));
    }
    if let Some((pos, r)) = res.results.iter().enumerate().find(|(pos, r)| r.batch_index != *pos) {
        return fail(format!("{SIG}/result-order"), format!("{}: result at position {pos} carries batch_index {}", summary(), r.batch_index));
    }
    if mem.wrong_text.load(Ordering::SeqCst) {
        return fail(format!("{SIG}/wrong-text-for-index"), format!("{}: the closure was called with a text that is not the request of that index", summary()));
    }
    if let Some(i) = calls.iter().position(|c| *c == 0) {
        return fail(format!("{SIG}/never-executed"), format!("{}: request {i} was never handed to the closure", summary()));
    }
    // terminal statuses and counters
    if let Some(r) = res.results.iter().find(|r| r.status == ExecutionStatus::NeedsRevalidation) {
        return fail(format!("{SIG}/non-terminal-status"), format!("{}: request {} is left in NeedsRevalidation", summary(), r.batch_index));
    }
    let failed_now: Vec<usize> = res.results.iter().filter(|r| r.status == ExecutionStatus::Failed).map(|r| r.batch_index).collect();
    let listed: Vec<usize> = res.failed_indices().collect();
    if res.failure_count != failed_now.len()
        || res.success_count != n - failed_now.len()
        || listed != failed_now
        || res.all_succeeded() != failed_now.is_empty()
    {
        return fail(format!("{SIG}/counters"), format!("{}: counters disagree with the statuses (failed {failed_now:?}, failed_indices {listed:?})", summary()));
    }

    // per request: outcome, value, recorded sets
    for (i, r) in res.results.iter().enumerate() {
        let w = &want[i];
        let got_failed = r.status == ExecutionStatus::Failed;
        if got_failed && !w.failed {
            let sig = if r.error.as_deref() == Some("Max re-execution rounds reached") {
                "valid-request-failed-max-rounds"
            } else {
                "valid-request-failed"
            };
            return fail(
                format!("{SIG}/{sig}"),
                format!("{}: request {i} succeeds when the batch is executed in order, but is reported Failed ({:?}) after {} closure calls", summary(), r.error, calls[i]),
            );
        }
        if !got_failed && w.failed {
            let sig = if r.reexecution_count > 0 { "failure-lost-by-reexecution" } else { "failure-lost" };
            return fail(
                format!("{SIG}/{sig}"),
                format!("{}: request {i} fails when the batch is executed in order ({:?}) but is reported {}", summary(), want_err[i], status_name(r.status)),
            );
        }
        let Some(l) = &last[i] else {
            return fail(format!("{SIG}/never-executed"), format!("{}: request {i} has no recorded run", summary()));
        };
        if l != w {
            return fail(
                format!("{SIG}/stale-result"),
                format!("{}: the last run of request {i} is {l:?}; executed in batch order it is {w:?}", summary()),
            );
        }
        if got_failed && r.error != want_err[i] {
            return fail(format!("{SIG}/error-text"), format!("{}: request {i} error {:?}, the closure reported {:?}", summary(), r.error, want_err[i]));
        }
        if !got_failed && r.error.is_some() {
            return fail(
                format!("{SIG}/error-text-on-success"),
                format!("{}: request {i} is reported {} but carries the error text {:?} of an earlier run", summary(), status_name(r.status), r.error),
            );
        }
        let mut rs: Vec<(String, u64)> = r.read_set.iter().map(|(e, ep)| (format!("{e:?}"), ep.as_u64())).collect();
        rs.sort();
        let mut want_rs: Vec<(String, u64)> = w.reads.iter().map(|(e, s)| (format!("{:?}", entity(*e)), *s)).collect();
        want_rs.sort();
        let mut ws: Vec<String> = r.write_set.iter().map(|e| format!("{e:?}")).collect();
        ws.sort();
        let mut want_ws: Vec<String> = w.writes.iter().map(|e| format!("{:?}", entity(*e))).collect();
        want_ws.sort();
        if rs != want_rs || ws != want_ws {
            return fail(
                format!("{SIG}/recorded-sets"),
                format!("{}: request {i} recorded reads {rs:?} writes {ws:?}; in batch order: reads {want_rs:?} writes {want_ws:?}", summary()),
            );
        }
    }

    // committed state
    let state = mem.committed();
    if state != want_state {
        return fail(format!("{SIG}/final-state"), format!("{}: committed state {state:?}, in batch order {want_state:?}", summary()));
    }

    let deps = static_dependencies(case);
    // the optimistic run of some request saw other values than its final run: the schedule was not in batch order
    let raced = mem.first.iter().zip(&last).any(|(f, l)| *f.lock().unwrap() != *l);
    let class = if n >= 4 && deps == 0 {
        format!("{path}/independent")
    } else if raced {
        format!("{path}/stale-first-run")
    } else {
        path.to_string()
    };
    ok(n >= 4 && deps > 0, class, hash_of(case))
}

// ------------------------------------------------------------------------------------------------
// Generator
// ------------------------------------------------------------------------------------------------

fn ent() -> impl Strategy<Value = u8> {
    // half of the picks fall on the first two entities, so that requests meet
    prop_oneof![1 => 0u8..2, 1 => 0u8..N_ENT as u8]
}

fn ent_set(max: usize) -> impl Strategy<Value = Vec<u8>> {
    proptest::collection::vec(ent(), 0..=max).prop_map(|mut v| {
        v.sort_unstable();
        v.dedup();
        v
    })
}

type RawOp = (u8, Vec<u8>, Vec<u8>, Option<u8>, u8, u8, u8);

fn raw_op() -> impl Strategy<Value = RawOp> {
    (
        any::<u8>(),
        ent_set(2),
        ent_set(2),
        proptest::option::of(ent()),
        any::<u8>(),
        any::<u8>(),
        prop_oneof![12 => Just(0u8), 4 => Just(1u8), 3 => Just(2u8), 1 => Just(3u8)],
    )
}

/// `density` decides which share of the requests keeps its read set: the executor takes its three paths
/// (no conflict / re-execution of <= 30 % / sequential fallback) depending on how many requests read
/// something an earlier request wrote.
pub fn strategy(max_ops: usize) -> impl Strategy<Value = PxCase> {
    (
        prop_oneof![1 => Just(1u8), 6 => 2u8..=8],
        0usize..4,
        prop_oneof![1 => proptest::collection::vec(raw_op(), 1..4), 9 => proptest::collection::vec(raw_op(), 4..=max_ops)],
    )
        .prop_map(|(workers, density, raws)| {
            let keep = [14u8, 40, 110, 255][density];
            let ops = raws
                .into_iter()
                .map(|(roll, reads, writes, cond, cond_roll, fail_roll, delay)| PxOp {
                    reads: if roll <= keep { if reads.is_empty() { vec![0] } else { reads } } else { Vec::new() },
                    writes,
                    cond_write: cond.filter(|_| cond_roll < 64),
                    fail: match fail_roll {
                        0..=215 => 0,
                        216..=227 => 1,
                        _ => 2,
                    },
                    delay,
                })
                .collect();
            PxCase { workers, ops }
        })
}

pub fn run(r: &mut Run) {
    let max_ops = MAX_OPS;
    r.subcheck("parallel_executor", r.cases(30_000, 1_500_000), move || strategy(max_ops), check_parallel_executor);
}
