//! Reference models.
