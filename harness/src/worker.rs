//! Child worker processes for operations that may hang, abort, overflow the stack or exhaust
//! memory (hostile query strings, mutilated logs / snapshots).
//!
//! Parent side: `WorkerPool::new("c12", mem_bytes)`; `pool.call(request_line, timeout)` sends one
//! line to an idle worker and waits for one reply line. A timeout kills that worker (the next call
//! spawns a fresh one); a worker that dies reports how. Worker side: `vcheck --worker <kind>` reads
//! request lines from stdin and answers each with exactly one line produced by
//! `props::worker_dispatch(kind, request)`; panics inside the handler are caught and reported as a
//! reply line starting with `PANIC `.
//!
//! Requests and replies must not contain `\n` (encode with `esc`/`unesc` or JSON).

use std::io::{BufRead, BufReader, Write};
use std::process::{Child, ChildStdin, Command, Stdio};
use std::sync::Mutex;
use std::sync::mpsc::{Receiver, RecvTimeoutError, channel};
use std::time::Duration;

#[derive(Debug, Clone, PartialEq, Eq)]
pub enum Reply {
    /// One reply line (without the trailing newline).
    Line(String),
    /// No reply within the deadline; the worker was killed.
    Timeout,
    /// The worker process died (signal / exit status text) before replying.
    Died(String),
}

struct Worker {
    child: Child,
    stdin: ChildStdin,
    rx: Receiver<String>,
}

impl Worker {
    fn spawn(kind: &str, mem_bytes: u64) -> std::io::Result<Worker> {
        let exe = std::env::current_exe()?;
        let mut cmd = Command::new(exe);
        cmd.arg("--worker").arg(kind).stdin(Stdio::piped()).stdout(Stdio::piped()).stderr(Stdio::null());
        #[cfg(unix)]
        {
            use std::os::unix::process::CommandExt;
            // SAFETY: setrlimit is async-signal-safe; nothing else happens between fork and exec.
            unsafe {
                cmd.pre_exec(move || {
                    if mem_bytes > 0 {
                        let lim = libc::rlimit { rlim_cur: mem_bytes, rlim_max: mem_bytes };
                        libc::setrlimit(libc::RLIMIT_AS, &lim);
                    }
                    // no core dumps
                    let z = libc::rlimit { rlim_cur: 0, rlim_max: 0 };
                    libc::setrlimit(libc::RLIMIT_CORE, &z);
                    Ok(())
                });
            }
        }
        let mut child = cmd.spawn()?;
        let stdin = child.stdin.take().unwrap();
        let stdout = child.stdout.take().unwrap();
        let (tx, rx) = channel();
        std::thread::spawn(move || {
            let rd = BufReader::new(stdout);
            for line in rd.lines() {
                match line {
                    Ok(l) => {
                        if tx.send(l).is_err() {
                            break;
                        }
                    }
                    Err(_) => break,
                }
            }
        });
        Ok(Worker { child, stdin, rx })
    }

    fn kill(mut self) -> String {
        let _ = self.child.kill();
        match self.child.wait() {
            Ok(st) => format!("{st}"),
            Err(e) => format!("wait failed: {e}"),
        }
    }
}

pub struct WorkerPool {
    kind: String,
    mem_bytes: u64,
    idle: Mutex<Vec<Worker>>,
}

impl WorkerPool {
    pub fn new(kind: &str, mem_bytes: u64) -> Self {
        WorkerPool { kind: kind.to_string(), mem_bytes, idle: Mutex::new(Vec::new()) }
    }

    pub fn call(&self, request: &str, timeout: Duration) -> Reply {
        debug_assert!(!request.contains('\n'));
        let w = self.idle.lock().unwrap().pop();
        let mut w = match w {
            Some(w) => w,
            None => match Worker::spawn(&self.kind, self.mem_bytes) {
                Ok(w) => w,
                Err(e) => return Reply::Died(format!("spawn failed: {e}")),
            },
        };
        if writeln!(w.stdin, "{request}").and_then(|()| w.stdin.flush()).is_err() {
            let st = w.kill();
            return Reply::Died(format!("write failed; {st}"));
        }
        match w.rx.recv_timeout(timeout) {
            Ok(line) => {
                self.idle.lock().unwrap().push(w);
                Reply::Line(line)
            }
            Err(RecvTimeoutError::Timeout) => {
                w.kill();
                Reply::Timeout
            }
            Err(RecvTimeoutError::Disconnected) => {
                let st = match w.child.wait() {
                    Ok(st) => format!("{st}"),
                    Err(e) => format!("wait failed: {e}"),
                };
                Reply::Died(st)
            }
        }
    }
}

impl Drop for WorkerPool {
    fn drop(&mut self) {
        for w in self.idle.lock().unwrap().drain(..) {
            w.kill();
        }
    }
}

/// Escapes a string into a single line (`\n`, `\r`, `\\`).
pub fn esc(s: &str) -> String {
    let mut o = String::with_capacity(s.len());
    for c in s.chars() {
        match c {
            '\\' => o.push_str("\\\\"),
            '\n' => o.push_str("\\n"),
            '\r' => o.push_str("\\r"),
            c => o.push(c),
        }
    }
    o
}

pub fn unesc(s: &str) -> String {
    let mut o = String::with_capacity(s.len());
    let mut it = s.chars();
    while let Some(c) = it.next() {
        if c == '\\' {
            match it.next() {
                Some('n') => o.push('\n'),
                Some('r') => o.push('\r'),
                Some('\\') => o.push('\\'),
                Some(x) => {
                    o.push('\\');
                    o.push(x);
                }
                None => o.push('\\'),
            }
        } else {
            o.push(c);
        }
    }
    o
}

/// Worker side main loop.
pub fn worker_main(args: &[String]) {
    let kind = args.first().cloned().unwrap_or_default();
    crate::driver::install_panic_hook();
    let stdin = std::io::stdin();
    let stdout = std::io::stdout();
    for line in stdin.lock().lines() {
        let Ok(line) = line else { break };
        let reply = match crate::driver::catch(|| crate::props::worker_dispatch(&kind, &line)) {
            Ok(r) => r,
            Err(p) => format!("PANIC {}", esc(&format!("{}\t{}", p.signature(), p.msg))),
        };
        let mut out = stdout.lock();
        if writeln!(out, "{}", reply.replace('\n', " ")).and_then(|()| out.flush()).is_err() {
            break;
        }
    }
}
