//! Child worker process for hostile inputs (filled in with C12).
pub fn worker_main(_args: &[String]) {}
