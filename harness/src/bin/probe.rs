use grafeo_engine::GrafeoDB;
fn main() {
    let db = GrafeoDB::new_in_memory();
    let s = db.session();
    for i in 0..13 { s.execute_sparql(&format!("INSERT DATA {{ <http://a/s{}> <http://a/p{}> <http://a/o{}> }}", i%4, i%3, i)).unwrap(); }
    for n in [1000usize, 2000, 4000] {
        let mut q = String::from("SELECT ?s WHERE { ?s ?p ?o ");
        for _ in 0..n { q.push_str("; ?p ?o "); }
        q.push('}');
        let t = std::time::Instant::now();
        let r = s.execute_sparql(&q);
        println!("n={n} {:?} rows={:?}", t.elapsed(), r.map(|r| r.rows.len()).map_err(|e| e.to_string()));
    }
}
