use grafeo_engine::GrafeoDB;
fn main() {
    let db = GrafeoDB::new_in_memory();
    let s = db.session();
    let setup: Vec<String> = std::env::args().skip(1).collect();
    for q in &setup {
        let (lang, text) = q.split_once(':').unwrap();
        let r = match lang { "cypher" => s.execute_cypher(text), "gremlin" => s.execute_gremlin(text), _ => s.execute(text) };
        match r { Ok(r) => println!("{q}\n  -> {} rows: {:?}", r.rows.len(), r.rows.iter().take(20).collect::<Vec<_>>()), Err(e) => println!("{q}\n  -> ERR {e}") }
    }
}
