use grafeo_engine::GrafeoDB;
fn show(s: &grafeo_engine::Session, q: &str) {
    match s.execute(q) {
        Ok(r) => println!("GQL  {q}\n   -> cols={:?} rows={:?}", r.columns, r.rows),
        Err(e) => println!("GQL  {q}\n   -> ERR {e}"),
    }
}
fn showc(s: &grafeo_engine::Session, q: &str) {
    match s.execute_cypher(q) {
        Ok(r) => println!("CYP  {q}\n   -> cols={:?} rows={:?}", r.columns, r.rows),
        Err(e) => println!("CYP  {q}\n   -> ERR {e}"),
    }
}
fn main() {
    let db = GrafeoDB::new_in_memory();
    db.create_property_index("x");
    let s = db.session();
    show(&s, "INSERT (:A {x: 0})");
    show(&s, "INSERT (:A {x: 0})");
    show(&s, "MATCH (n) WHERE id(n) = 0 DETACH DELETE n");
    show(&s, "MATCH (n) WHERE n.x = 0 RETURN id(n)");
    show(&s, "MATCH (n) RETURN id(n)");
    println!("{:?}", db.find_nodes_by_property("x", &grafeo_common::types::Value::Int64(0)));
    db.delete_node(grafeo_common::types::NodeId::new(1));
    show(&s, "MATCH (n) WHERE n.x = 0 RETURN id(n)");
    println!("{:?}", db.find_nodes_by_property("x", &grafeo_common::types::Value::Int64(0)));
}
