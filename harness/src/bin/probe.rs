use grafeo_engine::GrafeoDB;
use grafeo_common::types::{NodeId, Value};
fn main() {
    let db = GrafeoDB::new_in_memory();
    let s = db.session();
    let mut nodes: Vec<NodeId> = Vec::new();
    for q in std::env::args().skip(1) {
        let (lang, text) = q.split_once(':').unwrap();
        if lang == "node" {
            // node:A,C[:k=1,k2=2]
            let mut it = text.split(':');
            let labels: Vec<&str> = it.next().unwrap().split(',').filter(|x| !x.is_empty()).collect();
            let props: Vec<(&str, Value)> = it.next().map(|p| p.split(',').map(|kv| { let (k, v) = kv.split_once('=').unwrap(); (k, Value::Int64(v.parse().unwrap())) }).collect()).unwrap_or_default();
            nodes.push(db.create_node_with_props(&labels, props));
            continue;
        }
        if lang == "edge" {
            // edge:0:1:R[:w=0]
            let p: Vec<&str> = text.split(':').collect();
            let e = db.create_edge(nodes[p[0].parse::<usize>().unwrap()], nodes[p[1].parse::<usize>().unwrap()], p[2]);
            if let Some(kv) = p.get(3) { let (k, v) = kv.split_once('=').unwrap(); db.set_edge_property(e, k, Value::Int64(v.parse().unwrap())); }
            continue;
        }
        let r = match lang { "cypher" => s.execute_cypher(text), "gremlin" => s.execute_gremlin(text), _ => s.execute(text) };
        match r { Ok(r) => println!("{q}\n  -> {} rows: {:?}", r.rows.len(), r.rows.iter().take(12).collect::<Vec<_>>()), Err(e) => println!("{q}\n  -> ERR {e}") }
    }
}
