//! vcheck <ID> [--tier quick|thorough] [--seed N] [--replay FILE] [--only sub1,sub2] [--strict]
//! Exit codes: 0 held on everything explored, 1 violation, 2 inconclusive (infrastructure).

mod driver;
mod props;
#[allow(dead_code)]
mod worker;

use driver::{ReplayFile, Run, Tier};

fn main() {
    let args: Vec<String> = std::env::args().skip(1).collect();
    if args.first().map(String::as_str) == Some("--worker") {
        worker::worker_main(&args[1..]);
        return;
    }
    let Some(id) = args.first().cloned() else {
        eprintln!("usage: vcheck <ID> [--tier quick|thorough] [--seed N] [--replay FILE] [--only a,b] [--strict]");
        std::process::exit(2);
    };
    let mut tier = match std::env::var("VERIF_TIER").as_deref() {
        Ok("thorough") => Tier::Thorough,
        _ => Tier::Quick,
    };
    let mut seed: u64 = std::env::var("VERIF_SEED").ok().and_then(|s| s.trim().parse::<i64>().ok()).map(|v| v as u64).unwrap_or(0);
    let mut replay = None;
    let mut only = None;
    let mut strict = false;
    let mut i = 1;
    while i < args.len() {
        match args[i].as_str() {
            "--tier" => {
                i += 1;
                tier = if args.get(i).map(String::as_str) == Some("thorough") { Tier::Thorough } else { Tier::Quick };
            }
            "--seed" => {
                i += 1;
                seed = args.get(i).and_then(|s| s.parse::<i64>().ok()).map(|v| v as u64).unwrap_or(0);
            }
            "--replay" => {
                i += 1;
                let p = args.get(i).cloned().unwrap_or_default();
                let s = std::fs::read_to_string(&p).unwrap_or_else(|e| {
                    eprintln!("cannot read replay file {p}: {e}");
                    std::process::exit(2);
                });
                let rf: ReplayFile = serde_json::from_str(&s).unwrap_or_else(|e| {
                    eprintln!("replay file {p} does not parse: {e}");
                    std::process::exit(2);
                });
                replay = Some(rf);
            }
            "--only" => {
                i += 1;
                only = args.get(i).cloned();
            }
            "--strict" => strict = true,
            other => {
                eprintln!("unknown argument {other}");
                std::process::exit(2);
            }
        }
        i += 1;
    }
    // Global watchdog: a stuck run is inconclusive, never a violation.
    let limit_s: u64 = std::env::var("VERIF_WATCHDOG_S").ok().and_then(|s| s.parse().ok()).unwrap_or(match tier {
        Tier::Quick => 1800,
        Tier::Thorough => 4 * 3600,
    });
    let idc = id.clone();
    std::thread::spawn(move || {
        std::thread::sleep(std::time::Duration::from_secs(limit_s));
        println!("INCONCLUSIVE: watchdog ({limit_s}s) expired for {idc}");
        std::process::exit(2);
    });

    let mut run = Run::new(&id, tier, seed);
    run.replay = replay;
    run.only = only;
    run.strict = strict;
    if !props::dispatch(&id, &mut run) {
        eprintln!("unknown property {id}");
        std::process::exit(2);
    }
    let code = run.finish();
    std::process::exit(code);
}
