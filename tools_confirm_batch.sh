#!/bin/bash
# tools_confirm_batch.sh <lane-dir> <ID> [<ID> ...]: confirm several seeded changes (MUTDIR=/tmp/mut3) at once in a scratch
# worktree <lane-dir>/repo: all demos are copied in and must PASS on the clean tree; then all patches (which must not overlap)
# are applied together, each demo must FAIL, and the pinned baseline suite must pass with all of them applied.
# Writes $MUTDIR/<ID>/out/confirm.txt for every id (the same batch log).
C=$1; shift
IDS="$@"
M=${MUTDIR:-/tmp/mut3}
W=$C/repo
export CARGO_TARGET_DIR=$C/target CARGO_NET_OFFLINE=true
[ -d $W ] || git -C /repo worktree add -q --detach $W main
cd $W || exit 2
git checkout -q --detach main && git reset -q --hard main && git clean -qfd crates
LOG=$C/batch-$(echo $IDS | tr ' ' '_').txt
{
echo "== batch confirm [$IDS] at $(git rev-parse --short HEAD) $(date -u +%FT%TZ)"
declare -A NAME PKG
for ID in $IDS; do
  OUT=$M/$ID/out
  demo=$(ls $OUT/demo/*.rs 2>/dev/null | head -1)
  crate=$(grep -ho "crates/grafeo-[a-z]*/tests" $OUT/demo/RUN.md 2>/dev/null | head -1); [ -z "$crate" ] && crate=crates/grafeo-engine/tests
  name=$(basename "$demo" .rs); pkg=$(echo $crate | cut -d/ -f2)
  NAME[$ID]=$name; PKG[$ID]=$pkg
  cp "$demo" $crate/ || echo "COPY FAILED $ID"
  echo "demo[$ID]=$demo -> $crate ($pkg)"
done
run_demo() { # id
  local pkg=${PKG[$1]} feat=""
  case $pkg in grafeo-engine|grafeo-adapters) feat="--features full";; grafeo-core) feat="--all-features";; esac
  cargo test -p $pkg --offline $feat --test ${NAME[$1]} 2>&1 | grep -E "^test result|^test .*(FAILED|ok)$|error(\[|:)" | head -12
}
for ID in $IDS; do echo "-- demo $ID WITHOUT patch"; run_demo $ID; done
for ID in $IDS; do git apply $M/$ID/out/patch.diff || echo "PATCH DOES NOT APPLY: $ID"; done
git status --short | head -20
for ID in $IDS; do echo "-- demo $ID WITH patch (all of [$IDS] applied)"; run_demo $ID; done
for ID in $IDS; do rm -f crates/${PKG[$ID]}/tests/${NAME[$ID]}.rs; done
echo "-- baseline suite WITH patches [$IDS]"
REPO=$W /verif/baseline.sh $C/junit 2>&1 | tail -4
git checkout -q -- . ; git clean -qfd crates
} > $LOG 2>&1
for ID in $IDS; do cp $LOG $M/$ID/out/confirm.txt; done
cat $LOG
