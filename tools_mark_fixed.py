#!/usr/bin/env python3
"""tools_mark_fixed.py <PROP> <finding-id|-> <commit> <text>: set a known-finding entry to status "fixed" (it then tolerates nothing)
and append the `fixed: property=<id> <commit> <what failed>` line. With '-' as finding id only the line is appended."""
import json,sys
p,fid,commit,text=sys.argv[1:5]
f=f'/verif/known_findings/{p}.json'
d=json.load(open(f))
if fid!='-':
    hit=[x for x in d['findings'] if x['id']==fid]
    assert hit, fid
    hit[0]['status']='fixed'; hit[0]['fixed_by']=commit
d.setdefault('fixed',[]).append(f'fixed: property={p} {commit} {text}')
json.dump(d,open(f,'w'),indent=1,ensure_ascii=False)
print('ok',p,fid,commit)
