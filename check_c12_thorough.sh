#!/bin/bash
# Thorough tier of C12: the generated in-process/worker search (20-50x the quick tier), then the coverage-guided
# libFuzzer campaigns (one per front end; artifacts are replayed and classified by vcheck). Exit 1 if either part
# reports a violation, 2 if either is inconclusive, 0 otherwise.
cd "$(dirname "$0")" || exit 2
./check C12 --tier thorough "$@"; a=$?
./fuzz/run.sh "${C12_FUZZ_RUNS:-300000}"; b=$?
if [ $a -eq 1 ] || [ $b -eq 1 ]; then exit 1; fi
if [ $a -ne 0 ] || [ $b -ne 0 ]; then exit 2; fi
exit 0
