#!/bin/bash
# Runs the repository's pinned baseline suite with the verification guard OFF and compares the
# result with /root/.vp/BASELINE.json (stable_pass). Exit 0 iff every stable test passed.
set -u
REPO=${REPO:-/repo}
cd "$REPO" || exit 2
export CARGO_NET_OFFLINE=true
OUT=${1:-/tmp/baseline_junit}
rm -rf "$OUT"; mkdir -p "$OUT"
cargo nextest run --workspace --no-fail-fast --tool-config-file pb:/w/lib/nextest.toml --profile pb --test-threads 8 --offline >"$OUT/log" 2>&1
cp target/nextest/pb/junit.xml "$OUT/junit.xml" 2>/dev/null
python3 - "$OUT/junit.xml" <<'PY'
import json,sys,xml.etree.ElementTree as ET
base=set(json.load(open('/root/.vp/BASELINE.json'))['stable_pass'])
t=ET.parse(sys.argv[1]).getroot()
passed=set()
for ts in t.iter('testsuite'):
    for tc in ts.iter('testcase'):
        name=f"{ts.get('name')}::{tc.get('name')}"
        bad=any(c.tag in('failure','error','skipped') for c in tc)
        if not bad: passed.add(name)
missing=sorted(base-passed)
print(f"baseline: {len(base)} stable tests, {len(base&passed)} passed now, {len(missing)} missing/failing")
for m in missing[:40]: print("  FAIL/MISSING:",m)
sys.exit(0 if not missing else 1)
PY
