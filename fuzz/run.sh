#!/bin/bash
# Coverage-guided part of the thorough tier of C12: one libFuzzer campaign per query front end.
#
#   fuzz/run.sh <runs-per-target> [target ...]
#
# * builds the five targets (cargo +nightly fuzz build, offline, ASan, --cfg grafeo_verif);
# * runs each with  -runs=N -seed=$VERIF_SEED -timeout=20 -rss_limit_mb=4096 -len_control=0 -dict=dict/<lang>.dict
#   on a FRESH copy of the committed seed corpus (fuzz/seeds/<target>/ is never grown);
# * every artifact (crash-*, timeout-*, oom-*, leak-* is ignored) is written as a replay file for the
#   `exec` sub-check of `vcheck C12` and replayed there (child worker process, known-findings aware);
# * prints `VIOLATION property=C12 replay=<path>` and exits 1 if a replay confirms a failure that is
#   not a listed known finding; exit 0 otherwise; exit 2 on build / infrastructure problems.
#
# Env: VERIF_SEED (default 0), VERIF_ROOT (default: parent of this directory), VCHECK (path to the vcheck binary,
#      default $VERIF_ROOT/harness/target/release/vcheck), FUZZ_MAX_LEN (default 4096).
set -u
HERE="$(cd "$(dirname "$0")" && pwd)"
ROOT="${VERIF_ROOT:-$(dirname "$HERE")}"
export VERIF_ROOT="$ROOT"
RUNS="${1:-}"
if [ -z "$RUNS" ]; then echo "usage: fuzz/run.sh <runs-per-target> [target ...]"; exit 2; fi
shift
TARGETS=("$@")
if [ ${#TARGETS[@]} -eq 0 ]; then TARGETS=(fuzz_gql fuzz_cypher fuzz_gremlin fuzz_graphql fuzz_sparql); fi
SEED="${VERIF_SEED:-0}"
MAXLEN="${FUZZ_MAX_LEN:-4096}"
VCHECK="${VCHECK:-$ROOT/harness/target/release/vcheck}"
if [ ! -x "$VCHECK" ]; then echo "INCONCLUSIVE: vcheck binary not found at $VCHECK (run $ROOT/check C12 once, or set VCHECK)"; exit 2; fi

cd "$HERE" || exit 2
export CARGO_NET_OFFLINE=true
export RUSTFLAGS="${RUSTFLAGS:-} --cfg grafeo_verif"
BUILD_LOG="$HERE/run/build.log"
mkdir -p "$HERE/run"
if ! cargo +nightly fuzz build --fuzz-dir "$HERE" >"$BUILD_LOG" 2>&1; then
  echo "INCONCLUSIVE: cargo fuzz build failed"; grep -E "^error" -A12 "$BUILD_LOG" | head -60; exit 2
fi
BIN_DIR="$HERE/target/x86_64-unknown-linux-gnu/release"

pids=()
for t in "${TARGETS[@]}"; do
  lang="${t#fuzz_}"
  if [ ! -x "$BIN_DIR/$t" ]; then echo "INCONCLUSIVE: $BIN_DIR/$t missing after build"; exit 2; fi
  rm -rf "$HERE/run/$t"; mkdir -p "$HERE/run/$t/corpus" "$HERE/run/$t/artifacts"
  cp "$HERE/seeds/$t/"* "$HERE/run/$t/corpus/" 2>/dev/null
  (
    cd "$HERE/run/$t" || exit 2
    "$BIN_DIR/$t" corpus -runs="$RUNS" -seed="$SEED" -timeout=20 -rss_limit_mb=4096 -len_control=0 -max_len="$MAXLEN" \
      -dict="$HERE/dict/$lang.dict" -artifact_prefix="$HERE/run/$t/artifacts/" -print_final_stats=1 >fuzz.log 2>&1
    echo $? >exit_code
  ) &
  pids+=($!)
done
for p in "${pids[@]}"; do wait "$p"; done

rc=0
for t in "${TARGETS[@]}"; do
  lang="${t#fuzz_}"
  code="$(cat "$HERE/run/$t/exit_code" 2>/dev/null || echo '?')"
  execs="$(grep -E "^stat::number_of_executed_units" "$HERE/run/$t/fuzz.log" | awk '{print $2}')"
  cov="$(grep -E "cov: " "$HERE/run/$t/fuzz.log" | tail -1 | sed -E 's/.*cov: ([0-9]+).*/\1/')"
  echo "$t: exit=$code executed=${execs:-?} cov=${cov:-?} corpus=$(ls "$HERE/run/$t/corpus" | wc -l) artifacts=$(ls "$HERE/run/$t/artifacts" | wc -l)"
  for a in "$HERE/run/$t/artifacts/"*; do
    [ -f "$a" ] || continue
    case "$(basename "$a")" in leak-*|slow-unit-*) continue ;; esac
    replay="$HERE/run/$t/$(basename "$a").replay.json"
    if ! python3 - "$a" "$lang" "$replay" <<'EOF'
import json, sys
data = open(sys.argv[1], "rb").read()
try:
    text = data.decode("utf-8")
except UnicodeDecodeError:
    sys.exit(3)  # the target skips non-UTF-8 inputs; such an artifact cannot be a query
json.dump({"property": "C12", "subcheck": "exec", "signature": "fuzz-artifact",
           "what": "libFuzzer artifact " + sys.argv[1],
           "case": {"lang": sys.argv[2], "query": text, "params": None, "origin": "fuzz"}},
          open(sys.argv[3], "w"), ensure_ascii=True, indent=1)
EOF
    then echo "  $(basename "$a"): not UTF-8, skipped"; continue; fi
    out="$("$VCHECK" C12 --replay "$replay" 2>&1)"; vrc=$?
    if [ $vrc -eq 1 ]; then
      confirmed="$(echo "$out" | grep -E "^VIOLATION" | head -1 | sed -E 's/.*replay=//')"
      echo "VIOLATION property=C12 replay=${confirmed:-$replay}"
      echo "$out" | grep -E "^  (subcheck|what)" | head -4
      rc=1
    elif [ $vrc -eq 0 ]; then
      echo "  $(basename "$a"): replay passes or is a listed known finding ($(echo "$out" | grep -E "^KNOWN-FINDING" | head -1 | cut -c1-120))"
    else
      echo "  $(basename "$a"): replay inconclusive (vcheck exit $vrc)"; [ $rc -eq 0 ] && rc=2
    fi
  done
done
exit $rc
