#!/bin/bash
# Regenerates fuzz/seeds/<target>/ and fuzz/dict/<lang>.dict from the harness's skeleton tables
# (harness/src/props/c12/seeds.rs) through `vcheck --worker c12` ("DUMP <lang>").
# usage: fuzz/gen_seeds.sh [path-to-vcheck]
set -eu
HERE="$(cd "$(dirname "$0")" && pwd)"
VCHECK="${1:-$HERE/../harness/target/release/vcheck}"
for lang in gql cypher gremlin graphql sparql; do
  rm -rf "$HERE/seeds/fuzz_$lang"; mkdir -p "$HERE/seeds/fuzz_$lang" "$HERE/dict"
  echo "DUMP $lang" | "$VCHECK" --worker c12 | python3 -c '
import json, sys, hashlib, os
lang, here = sys.argv[1], sys.argv[2]
d = json.loads(sys.stdin.readline())
for s in d["skeletons"]:
    h = hashlib.sha1(s.encode()).hexdigest()[:16]
    open(os.path.join(here, "seeds", "fuzz_" + lang, h), "w", encoding="utf-8").write(s)
with open(os.path.join(here, "dict", lang + ".dict"), "w", encoding="utf-8") as f:
    seen = set()
    for t in d["dictionary"]:
        if not t.strip() or t in seen:
            continue
        seen.add(t)
        esc = "".join("\\x%02x" % b if (b < 0x20 or b >= 0x7f or b in (0x22, 0x5c)) else chr(b) for b in t.encode())
        f.write("\"" + esc + "\"\n")
' "$lang" "$HERE"
done
