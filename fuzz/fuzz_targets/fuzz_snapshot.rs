#![no_main]
//! libFuzzer target for C07: raw bytes -> `GrafeoDB::import_snapshot`.
//!
//! In-target oracle (deliberately the part that needs no model; the full judgement — "these bytes are a snapshot of
//! exactly this graph / are not a snapshot" — is made afterwards by `vcheck C07 --only hostile_corpus` over every
//! input the campaign kept, with the independent format reader as the oracle):
//!   * no panic, abort, hang or runaway allocation;
//!   * bytes the independent reader (`snapfmt`, shared with the harness) cannot read must be rejected;
//!   * an accepted input round-trips: export(import(b)) imports again and exports to the same bytes, and holds as
//!     many nodes / edges as the reader found.
//! Known findings excluded by construction (counted on stderr at exit is not possible under libFuzzer; the harness
//! sub-check reports how many corpus files fall into each class): a string length prefix beyond the input
//! (`C07-import-allocates-declared-string-length`) and container nesting deeper than 64
//! (`C07-import-stack-overflow-deep-nesting`) are skipped before the engine sees them.
#[allow(dead_code)]
#[path = "../../harness/src/props/c07/val.rs"]
mod val;
#[allow(dead_code)]
#[path = "../../harness/src/props/c07/snapfmt.rs"]
mod snapfmt;

use grafeo_engine::GrafeoDB;
use snapfmt::PErr;

fn die(msg: &str, data: &[u8]) -> ! {
    eprintln!("C07 fuzz: {msg} ({} bytes)", data.len());
    std::process::abort();
}

libfuzzer_sys::fuzz_target!(|data: &[u8]| {
    let parsed = snapfmt::parse(data);
    match &parsed {
        Err((PErr::HugeByteLen(_), _)) | Err((PErr::TooDeep, _)) => return,
        Ok(p) if p.max_depth > 64 => return,
        _ => {}
    }
    // a sequence length far beyond the input makes a well-behaved decoder fail at the first missing element; nothing to skip
    let db = match GrafeoDB::import_snapshot(data) {
        Ok(db) => db,
        Err(_) => return,
    };
    let p = match parsed {
        Ok(p) => p,
        Err((e, _)) => die(&format!("import_snapshot accepted bytes the format reader rejects: {e:?}"), data),
    };
    if p.version != 1 {
        die("import_snapshot accepted a snapshot with an unknown version byte", data);
    }
    if db.node_count() != p.nodes.len() || db.edge_count() != p.edges.len() {
        // repeated ids must be rejected, so the counts of an accepted snapshot are the counts in the bytes
        die(&format!("imported {} nodes / {} edges from bytes holding {} / {}", db.node_count(), db.edge_count(), p.nodes.len(), p.edges.len()), data);
    }
    let again = match db.export_snapshot() {
        Ok(b) => b,
        Err(e) => die(&format!("export_snapshot of an imported database failed: {e}"), data),
    };
    let db2 = match GrafeoDB::import_snapshot(&again) {
        Ok(d) => d,
        Err(e) => die(&format!("the export of an imported database does not import: {e}"), data),
    };
    let third = match db2.export_snapshot() {
        Ok(b) => b,
        Err(e) => die(&format!("second export failed: {e}"), data),
    };
    // enumeration order is unspecified: compare the two exports as graphs (independent reader, canonical order)
    match (canon(&again), canon(&third)) {
        (Some(a), Some(b)) if a == b => {}
        (Some(_), Some(_)) => die("export(import(export(import(b)))) describes another graph than export(import(b))", data),
        _ => die("an export is not readable by the format reader", data),
    }
});

type Canon = (Vec<(u64, Vec<String>, Vec<(String, val::V)>)>, Vec<(u64, u64, u64, String, Vec<(String, val::V)>)>);

fn canon(bytes: &[u8]) -> Option<Canon> {
    let p = snapfmt::parse(bytes).ok()?;
    if p.version != 1 || p.consumed != bytes.len() {
        return None;
    }
    let mut nodes: Vec<_> = p
        .nodes
        .into_iter()
        .map(|n| {
            let (mut l, mut pr) = (n.labels, n.props);
            l.sort();
            pr.sort_by(|a, b| a.0.cmp(&b.0));
            (n.id, l, pr)
        })
        .collect();
    nodes.sort_by_key(|n| n.0);
    let mut edges: Vec<_> = p
        .edges
        .into_iter()
        .map(|e| {
            let mut pr = e.props;
            pr.sort_by(|a, b| a.0.cmp(&b.0));
            (e.id, e.src, e.dst, e.ty, pr)
        })
        .collect();
    edges.sort_by_key(|e| e.0);
    Some((nodes, edges))
}
