//! Shared body of the five C12 libFuzzer targets.
//!
//! * input: raw bytes; non-UTF-8 inputs are skipped (the API takes `&str`);
//! * state reset: a fresh empty and a fresh small database per input (same content as the harness's
//!   `props::c12::build_db`);
//! * oracle: no panic / abort / timeout / rss limit (libFuzzer's own `-timeout`, `-rss_limit_mb`);
//! * panics whose signature (`panic@<crate-relative file>:<message, digits collapsed>` — the same
//!   normalisation as `vcheck`) is listed as an *open* finding in `known_findings/C12.json` are
//!   tolerated in-target, otherwise every campaign would stop on the first known one; open findings
//!   about deep bracket nesting make the target skip inputs nested deeper than 100.
//!
//! Anything else aborts; `fuzz/run.sh` turns the saved artifact into a replay file for `vcheck C12`.

use std::cell::RefCell;
use std::collections::HashMap;
use std::sync::OnceLock;

use grafeo_common::types::Value;
use grafeo_core::graph::rdf::{Term, Triple};
use grafeo_engine::GrafeoDB;

struct Known {
    signatures: Vec<String>,
    prefixes: Vec<String>,
    skip_deep_brackets: bool,
    skip_long_chains: bool,
}

static KNOWN: OnceLock<Known> = OnceLock::new();

thread_local! {
    static TOLERATED: RefCell<bool> = const { RefCell::new(false) };
}

fn normalize_file(f: &str) -> String {
    if let Some(i) = f.find("/crates/") {
        f[i + 8..].to_string()
    } else if let Some(i) = f.find("/rustc/") {
        match f[i..].find("/library/") {
            Some(j) => f[i + j + 1..].to_string(),
            None => f.to_string(),
        }
    } else {
        f.to_string()
    }
}

fn normalize_msg(m: &str) -> String {
    let mut out = String::new();
    let mut last_digit = false;
    for c in m.chars().take(90) {
        if c.is_ascii_digit() {
            if !last_digit {
                out.push('#');
            }
            last_digit = true;
        } else {
            last_digit = false;
            out.push(if c == '\n' { ' ' } else { c });
        }
    }
    out
}

fn load_known() -> Known {
    let root = std::env::var("VERIF_ROOT").unwrap_or_else(|_| "/verif".to_string());
    let mut k = Known { signatures: Vec::new(), prefixes: Vec::new(), skip_deep_brackets: false, skip_long_chains: false };
    let Ok(text) = std::fs::read_to_string(format!("{root}/known_findings/C12.json")) else { return k };
    let Ok(v) = serde_json::from_str::<serde_json::Value>(&text) else { return k };
    for f in v["findings"].as_array().cloned().unwrap_or_default() {
        if f["status"] != "open" || f["property"] != "C12" {
            continue;
        }
        let mut all: Vec<String> = Vec::new();
        for s in f["signatures"].as_array().cloned().unwrap_or_default() {
            if let Some(s) = s.as_str() {
                k.signatures.push(s.to_string());
                all.push(s.to_string());
            }
        }
        for s in f["signature_prefixes"].as_array().cloned().unwrap_or_default() {
            if let Some(s) = s.as_str() {
                k.prefixes.push(s.to_string());
                all.push(s.to_string());
            }
        }
        if all.iter().any(|s| s.contains("deep-brackets")) {
            k.skip_deep_brackets = true;
        }
        if all.iter().any(|s| s.contains("long-input") || s.contains("prefix-chain")) {
            k.skip_long_chains = true;
        }
    }
    k
}

fn init() -> &'static Known {
    KNOWN.get_or_init(|| {
        let known = load_known();
        // replaces libfuzzer-sys's abort-on-panic hook: abort only for signatures that are not known
        std::panic::set_hook(Box::new(|info| {
            let file = info.location().map(|l| normalize_file(l.file())).unwrap_or_else(|| "<unknown>".into());
            let msg = if let Some(s) = info.payload().downcast_ref::<&str>() {
                (*s).to_string()
            } else if let Some(s) = info.payload().downcast_ref::<String>() {
                s.clone()
            } else {
                "<non-string panic>".to_string()
            };
            let sig = format!("panic@{file}:{}", normalize_msg(&msg));
            let k = KNOWN.get();
            let tolerated = k.is_some_and(|k| k.signatures.iter().any(|s| *s == sig) || k.prefixes.iter().any(|p| sig.starts_with(p.as_str())));
            if tolerated {
                TOLERATED.with(|t| *t.borrow_mut() = true);
            } else {
                eprintln!("C12 fuzz: panic with unlisted signature {sig}\n  message: {msg}");
                std::process::abort();
            }
        }));
        known
    })
}

pub fn build_db(small: bool) -> GrafeoDB {
    let db = GrafeoDB::new_in_memory();
    if !small {
        return db;
    }
    let person = |name: &str, age: i64, score: f64, city: &str, big: i64| -> Vec<(&'static str, Value)> {
        vec![
            ("name", Value::from(name)),
            ("age", Value::Int64(age)),
            ("score", Value::Float64(score)),
            ("nick", Value::Null),
            ("city", Value::from(city)),
            ("big", Value::Int64(big)),
            ("neg", Value::Int64(i64::MIN)),
            ("active", Value::Bool(age > 26)),
        ]
    };
    let a = db.create_node_with_props(&["Person"], person("Alice", 30, 1.5, "Paris", i64::MAX));
    let b = db.create_node_with_props(&["Person"], person("Bob", 25, -0.0, "Berlin", i64::MAX));
    let c = db.create_node_with_props(&["Person", "Employee"], person("Zo\u{eb} \u{1f600}", 41, f64::MAX, "Paris", 1));
    let d = db.create_node_with_props(
        &["Person"],
        vec![("name", Value::from("Dan")), ("age", Value::from("n/a")), ("score", Value::Float64(f64::NAN)), ("embedding", Value::Vector(vec![0.0f32, 1.0, 0.5].into()))],
    );
    let co = db.create_node_with_props(&["Company"], vec![("name", Value::from("Acme")), ("founded", Value::Int64(1999))]);
    let ci = db.create_node_with_props(&["City"], vec![("name", Value::from("Paris")), ("tags", Value::List(vec![Value::from("a"), Value::Int64(1)].into()))]);
    let _lonely = db.create_node(&[]);
    db.create_edge_with_props(a, b, "KNOWS", vec![("since", Value::Int64(2020)), ("weight", Value::Float64(0.5))]);
    db.create_edge_with_props(b, c, "KNOWS", vec![("since", Value::Int64(i64::MAX)), ("weight", Value::Float64(-1.0))]);
    db.create_edge_with_props(c, a, "KNOWS", vec![("since", Value::Null), ("weight", Value::Float64(f64::INFINITY))]);
    db.create_edge_with_props(a, co, "WORKS_AT", vec![("role", Value::from("dev"))]);
    db.create_edge_with_props(d, co, "WORKS_AT", vec![("role", Value::from("ops"))]);
    db.create_edge(a, ci, "LIVES_IN");
    db.create_edge(d, d, "KNOWS");

    let rdf = db.rdf_store();
    let ex = |s: &str| Term::iri(format!("http://example.org/{s}"));
    let foaf = |s: &str| Term::iri(format!("http://xmlns.com/foaf/0.1/{s}"));
    let xsd = |s: &str| format!("http://www.w3.org/2001/XMLSchema#{s}");
    let rdf_type = Term::iri("http://www.w3.org/1999/02/22-rdf-syntax-ns#type");
    for (s, p, o) in [
        (ex("alice"), rdf_type.clone(), foaf("Person")),
        (ex("alice"), foaf("name"), Term::literal("Alice")),
        (ex("alice"), foaf("age"), Term::typed_literal("30", xsd("integer"))),
        (ex("alice"), foaf("knows"), ex("bob")),
        (ex("bob"), foaf("name"), Term::lang_literal("Bob", "en")),
        (ex("bob"), foaf("age"), Term::typed_literal("9223372036854775807", xsd("integer"))),
        (ex("bob"), foaf("knows"), ex("carol")),
        (ex("carol"), foaf("knows"), ex("alice")),
        (ex("carol"), foaf("age"), Term::typed_literal("-9223372036854775808", xsd("integer"))),
        (ex("carol"), foaf("name"), Term::literal("Zo\u{eb} \u{1f600}")),
        (ex("carol"), ex("score"), Term::typed_literal("1.5e308", xsd("double"))),
        (ex("carol"), ex("bad"), Term::typed_literal("abc", xsd("integer"))),
        (Term::blank("b0"), foaf("name"), Term::literal("Nobody")),
    ] {
        rdf.insert(Triple::new(s, p, o));
    }
    db
}

fn bracket_depth(q: &str) -> usize {
    let (mut d, mut best) = (0usize, 0usize);
    for c in q.chars() {
        match c {
            '(' | '[' | '{' => {
                d += 1;
                best = best.max(d);
            }
            ')' | ']' | '}' => d = d.saturating_sub(1),
            _ => {}
        }
    }
    best
}

/// true if the text has a variable-length quantifier (`*a..b` inside `[...]`) with a bound above 64.
///
/// The engine matches walks (homomorphism), so on a cyclic graph such a pattern *defines* a result with as many
/// rows as the bound says (billions): no implementation can answer in bounded time, and that is not what C12 is
/// about. Such inputs still go through lexing, parsing, translation, binding, planning and execution on the empty
/// database; only the run on the (cyclic) small database is skipped.
pub fn huge_varlen(q: &str) -> bool {
    let cs: Vec<char> = q.chars().collect();
    let mut depth = 0usize;
    let mut i = 0;
    while i < cs.len() {
        match cs[i] {
            '[' => depth += 1,
            ']' => depth = depth.saturating_sub(1),
            '*' if depth > 0 => {
                let mut j = i + 1;
                loop {
                    while j < cs.len() && (cs[j].is_whitespace() || cs[j] == '.') {
                        j += 1;
                    }
                    let st = j;
                    while j < cs.len() && cs[j].is_ascii_digit() {
                        j += 1;
                    }
                    if j == st {
                        break;
                    }
                    let digits: String = cs[st..j].iter().collect();
                    let digits = digits.trim_start_matches('0');
                    if digits.len() > 2 || digits.parse::<u32>().unwrap_or(0) > 64 {
                        return true;
                    }
                }
                i = j;
                continue;
            }
            _ => {}
        }
        i += 1;
    }
    false
}

fn execute(db: &GrafeoDB, lang: &str, q: &str, with_params: bool) {
    let session = db.session();
    let p: HashMap<String, Value> = HashMap::new();
    let _ = match (lang, with_params) {
        ("gql", false) => session.execute(q),
        ("gql", true) => session.execute_with_params(q, p),
        ("cypher", false) => session.execute_cypher(q),
        ("cypher", true) => db.execute_cypher_with_params(q, p),
        ("gremlin", false) => session.execute_gremlin(q),
        ("gremlin", true) => session.execute_gremlin_with_params(q, p),
        ("graphql", false) => session.execute_graphql(q),
        ("graphql", true) => session.execute_graphql_with_params(q, p),
        ("sparql", false) => session.execute_sparql(q),
        ("sparql", true) => session.execute_sparql_with_params(q, p),
        _ => return,
    };
}

pub fn run(lang: &str, data: &[u8]) {
    let known = init();
    let Ok(q) = std::str::from_utf8(data) else { return };
    if known.skip_deep_brackets && bracket_depth(q) >= 100 {
        return;
    }
    if known.skip_long_chains && q.len() >= 1000 {
        return;
    }
    let empty_only = huge_varlen(q);
    for (small, with_params) in [(false, false), (true, false), (true, true)] {
        if small && empty_only {
            continue;
        }
        TOLERATED.with(|t| *t.borrow_mut() = false);
        let r = std::panic::catch_unwind(|| {
            let db = build_db(small);
            execute(&db, lang, q, with_params);
        });
        if r.is_err() && !TOLERATED.with(|t| *t.borrow()) {
            // a panic the hook did not see as known (cannot happen: the hook aborts first)
            std::process::abort();
        }
    }
}
