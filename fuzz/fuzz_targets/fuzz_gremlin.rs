#![no_main]
//! libFuzzer target: raw UTF-8 bytes -> the gremlin front end, against a fresh empty and a fresh small database.
mod common;

libfuzzer_sys::fuzz_target!(|data: &[u8]| {
    common::run("gremlin", data);
});
