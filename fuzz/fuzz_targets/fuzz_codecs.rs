#![no_main]
//! libFuzzer target for C15: first byte selects a codec, the rest is offered to its `from_bytes`.
//!
//! In-target oracle: `from_bytes` returns `Err` or an object whose accessors work and agree with each other
//! (len = decode().len(), get(i) = decode()[i], get(len) = None) and whose `to_bytes` is read back to an object that
//! decodes to the same values — never a panic. Objects that claim more than 2^17 values are only probed, not decoded
//! (a 5-byte block "4·10^9 zeros at width 0" is valid). Run-length blocks whose run count lies in (2^20, 2^59) are
//! skipped: `from_bytes` reserves `count * 16` bytes before it looks at the input (same exclusion as the harness's
//! `from_bytes_hostile` sub-check). Every input the campaign keeps is judged again by `vcheck C15 --only from_bytes_corpus`.
use grafeo_core::storage::{BitPackedInts, BitVector, DeltaBitPacked, DeltaEncoding, RunLengthEncoding, SignedRunLengthEncoding};

const CAP: usize = 1 << 17;

fn die(msg: String) -> ! {
    eprintln!("C15 fuzz: {msg}");
    std::process::abort();
}

fn consistent(tag: &str, len: usize, decode: impl FnOnce() -> Vec<u64>, get: impl Fn(usize) -> Option<u64>) -> Option<Vec<u64>> {
    if len > CAP {
        for i in [0, len / 2, len - 1] {
            if get(i).is_none() {
                die(format!("{tag}: len {len}, get({i}) = None"));
            }
        }
        if get(len).is_some() {
            die(format!("{tag}: get(len) is Some"));
        }
        return None;
    }
    let d = decode();
    if d.len() != len {
        die(format!("{tag}: len() = {len}, decode().len() = {}", d.len()));
    }
    for (i, x) in d.iter().enumerate() {
        if get(i) != Some(*x) {
            die(format!("{tag}: get({i}) != decode()[{i}]"));
        }
    }
    if get(len).is_some() {
        die(format!("{tag}: get(len) is Some"));
    }
    Some(d)
}

libfuzzer_sys::fuzz_target!(|data: &[u8]| {
    let Some((sel, bytes)) = data.split_first() else { return };
    let codec = sel % 6;
    if matches!(codec, 3 | 4) && bytes.len() >= 8 {
        let rc = u64::from_le_bytes(bytes[0..8].try_into().unwrap());
        if rc > (1 << 20) {
            return; // (counts >= 2^59 panic with a capacity overflow inside from_bytes: the harness sub-check covers them under catch_unwind)
        }
    }
    match codec {
        0 => {
            if let Ok(q) = BitPackedInts::from_bytes(bytes) {
                if let Some(d) = consistent("bitpack", q.len(), || q.unpack(), |i| q.get(i)) {
                    match BitPackedInts::from_bytes(&q.to_bytes()) {
                        Ok(q2) if q2.unpack() == d => {}
                        _ => die("bitpack: to_bytes of an accepted block does not read back to the same values".into()),
                    }
                }
            }
        }
        1 => {
            if let Ok(q) = DeltaEncoding::from_bytes(bytes) {
                if q.len() <= CAP {
                    let d = q.decode();
                    if d.len() != q.len() || q.decode_signed().len() != q.len() {
                        die(format!("delta: len {} vs decode {}", q.len(), d.len()));
                    }
                    match DeltaEncoding::from_bytes(&q.to_bytes()) {
                        Ok(q2) if q2.decode() == d => {}
                        _ => die("delta: to_bytes of an accepted block does not read back to the same values".into()),
                    }
                }
            }
        }
        2 => {
            if let Ok(q) = DeltaBitPacked::from_bytes(bytes) {
                if q.len() <= CAP {
                    let d = q.decode();
                    if d.len() != q.len() {
                        die(format!("delta_bitpacked: len {} vs decode {}", q.len(), d.len()));
                    }
                    match DeltaBitPacked::from_bytes(&q.to_bytes()) {
                        Ok(q2) if q2.decode() == d => {}
                        _ => die("delta_bitpacked: to_bytes of an accepted block does not read back to the same values".into()),
                    }
                }
            }
        }
        3 => {
            if let Ok(q) = RunLengthEncoding::from_bytes(bytes) {
                if let Some(d) = consistent("rle", q.total_count(), || q.decode(), |i| q.get(i)) {
                    match RunLengthEncoding::from_bytes(&q.to_bytes()) {
                        Ok(q2) if q2.decode() == d => {}
                        _ => die("rle: to_bytes of an accepted block does not read back to the same values".into()),
                    }
                }
            }
        }
        4 => {
            if let Ok(q) = SignedRunLengthEncoding::from_bytes(bytes) {
                let small = RunLengthEncoding::from_bytes(bytes).map(|u| u.total_count() <= CAP).unwrap_or(false);
                if small {
                    let d = q.decode();
                    match SignedRunLengthEncoding::from_bytes(&q.to_bytes()) {
                        Ok(q2) if q2.decode() == d => {}
                        _ => die("rle_signed: to_bytes of an accepted block does not read back to the same values".into()),
                    }
                }
            }
        }
        _ => {
            if let Ok(q) = BitVector::from_bytes(bytes) {
                let n = q.len();
                if n <= CAP * 8 {
                    let d = q.to_bools();
                    if d.len() != n || q.count_ones() != d.iter().filter(|b| **b).count() || q.get(n).is_some() {
                        die(format!("bitvec: inconsistent accessors at len {n}"));
                    }
                    match BitVector::from_bytes(&q.to_bytes()) {
                        Ok(q2) if q2.to_bools() == d => {}
                        _ => die("bitvec: to_bytes of an accepted block does not read back to the same bits".into()),
                    }
                }
            }
        }
    }
});
