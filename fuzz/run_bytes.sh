#!/bin/bash
# Coverage-guided part of the thorough tier of the byte-format properties (C07 import_snapshot, C15 from_bytes).
#
#   fuzz/run_bytes.sh <runs> <target> <PROPERTY> <subcheck> <ENVVAR>
#   e.g. fuzz/run_bytes.sh 2000000 fuzz_snapshot C07 hostile_corpus VERIF_FUZZ_CORPUS_C07
#
# * builds the target (cargo +nightly fuzz build, offline, ASan, --cfg grafeo_verif);
# * runs FUZZ_JOBS (default 8) libFuzzer processes, each with -runs=<runs>/jobs -seed=$VERIF_SEED+i -timeout=20
#   -rss_limit_mb=4096 -malloc_limit_mb=2048 -len_control=0 -max_len=$FUZZ_MAX_LEN (default 4096), on FRESH copies of the
#   committed seed corpus (fuzz/seeds/<target>/ is never grown);
# * the in-target oracle aborts on a panic or a broken round trip; every input the campaign KEPT (new coverage) and every
#   artifact is then judged by the harness's full oracle:  $ENVVAR=<dirs> vcheck <PROPERTY> --only <subcheck>
#   (known findings, replay files and the VIOLATION line come from there);
# * exit code = that vcheck run's (0 / 1 / 2); 2 also on build problems.
set -u
HERE="$(cd "$(dirname "$0")" && pwd)"
ROOT="${VERIF_ROOT:-$(dirname "$HERE")}"
export VERIF_ROOT="$ROOT"
RUNS="${1:-}"; T="${2:-}"; PROP="${3:-}"; SUB="${4:-}"; VAR="${5:-}"
if [ -z "$VAR" ]; then echo "usage: fuzz/run_bytes.sh <runs> <target> <PROPERTY> <subcheck> <ENVVAR>"; exit 2; fi
SEED="${VERIF_SEED:-0}"; MAXLEN="${FUZZ_MAX_LEN:-4096}"; JOBS="${FUZZ_JOBS:-8}"
VCHECK="${VCHECK:-$ROOT/harness/target/release/vcheck}"
if [ ! -x "$VCHECK" ]; then echo "INCONCLUSIVE: vcheck binary not found at $VCHECK"; exit 2; fi
cd "$HERE" || exit 2
export CARGO_NET_OFFLINE=true
export RUSTFLAGS="${RUSTFLAGS:-} --cfg grafeo_verif"
mkdir -p "$HERE/run"
if ! cargo +nightly fuzz build --fuzz-dir "$HERE" "$T" >"$HERE/run/build-$T.log" 2>&1; then
  echo "INCONCLUSIVE: cargo fuzz build failed"; grep -E "^error" -A12 "$HERE/run/build-$T.log" | head -60; exit 2
fi
BIN="$HERE/target/x86_64-unknown-linux-gnu/release/$T"
[ -x "$BIN" ] || { echo "INCONCLUSIVE: $BIN missing after build"; exit 2; }
rm -rf "$HERE/run/$T"; mkdir -p "$HERE/run/$T"
PER=$(( (RUNS + JOBS - 1) / JOBS ))
pids=(); dirs=""
for i in $(seq 0 $((JOBS - 1))); do
  d="$HERE/run/$T/j$i"; mkdir -p "$d/corpus" "$d/artifacts"; cp "$HERE/seeds/$T/"* "$d/corpus/" 2>/dev/null
  dirs="$dirs:$d/corpus:$d/artifacts"
  ( cd "$d" && "$BIN" corpus -runs="$PER" -seed="$((SEED * 1000 + i + 1))" -timeout=20 -rss_limit_mb=4096 -malloc_limit_mb=2048 \
      -len_control=0 -max_len="$MAXLEN" -artifact_prefix="$d/artifacts/" -print_final_stats=1 >fuzz.log 2>&1; echo $? >exit_code ) &
  pids+=($!)
done
for p in "${pids[@]}"; do wait "$p"; done
for i in $(seq 0 $((JOBS - 1))); do
  d="$HERE/run/$T/j$i"
  echo "$T j$i: exit=$(cat "$d/exit_code" 2>/dev/null) executed=$(grep -E '^stat::number_of_executed_units' "$d/fuzz.log" | awk '{print $2}') cov=$(grep -E 'cov: ' "$d/fuzz.log" | tail -1 | sed -E 's/.*cov: ([0-9]+).*/\1/') corpus=$(ls "$d/corpus" | wc -l) artifacts=$(ls "$d/artifacts" | wc -l) $(grep -m1 -E '^C[0-9]+ fuzz:' "$d/fuzz.log")"
done
env "$VAR=${dirs#:}" "$VCHECK" "$PROP" --tier thorough --only "$SUB"
