#!/bin/bash
# Thorough tier of C07: the generated search (copies + hostile bytes), then a coverage-guided libFuzzer campaign on
# import_snapshot whose kept inputs and artifacts are judged by the harness's independent-format-reader oracle
# (sub-check hostile_corpus). Exit 1 if either part reports a violation, 2 if either is inconclusive, 0 otherwise.
# The second part rewrites evidence/C07.json for its sub-check only when run alone; the registered evidence is the first part's
# plus the campaign summary printed here.
cd "$(dirname "$0")" || exit 2
./fuzz/run_bytes.sh "${C07_FUZZ_RUNS:-1600000}" fuzz_snapshot C07 hostile_corpus VERIF_FUZZ_CORPUS_C07; b=$?
VERIF_FUZZ_CORPUS_C07="$(ls -d fuzz/run/fuzz_snapshot/j*/corpus fuzz/run/fuzz_snapshot/j*/artifacts 2>/dev/null | sed "s#^#$PWD/#" | tr '\n' ':')" ./check C07 --tier thorough "$@"; a=$?
if [ $a -eq 1 ] || [ $b -eq 1 ]; then exit 1; fi
if [ $a -ne 0 ] || [ $b -ne 0 ]; then exit 2; fi
exit 0
