#!/usr/bin/env python3
"""tools_round_table.py <suffix>: markdown table (id | the change | caught by | not caught by) from seeded/<ID><suffix>/meta.json"""
import json,sys,glob,os
suf=sys.argv[1] if len(sys.argv)>1 else ''
print('| id | the change | what it needs to manifest | caught by (signature) | not caught by |')
print('|---|---|---|---|---|')
for i in [f'C{n:02d}' for n in range(1,21)]:
    p=f'/verif/seeded/{i}{suf}/meta.json'
    if not os.path.exists(p): continue
    m=json.load(open(p))
    det=m.get('detected_by_quick_checks',{})
    hit=', '.join(f"{c} ({v['signature']})" for c,v in det.items() if v['exit']==1 and '-s' not in c) or '—'
    miss=', '.join(c for c,v in det.items() if v['exit']==0 and '-s' not in c) or '—'
    cut=lambda s,n: (s[:n].rsplit(' ',1)[0]+' …') if len(s)>n else s
    print(f"| {i} | {cut(m.get('summary','').replace('|','/'),300)} | {cut(m.get('needs','').replace('|','/'),200)} | {hit} | {miss} |")
