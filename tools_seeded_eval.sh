#!/bin/bash
# tools_seeded_eval.sh <patchdir> <ID> [check ids...]: like tools_seeded.sh but in the isolated evaluation area
# /root/work/EVAL/{verif,repo} (harness there compiles against /root/work/EVAL/repo), so /repo stays untouched.
PD=$1; ID=$2; shift 2
CHECKS=${@:-$ID}
E=/root/work/EVAL
git -C $E/repo checkout -q -- . ; git -C $E/repo reset -q --hard main
git -C $E/verif checkout -q -- . ; git -C $E/verif clean -fdq replays; git -C $E/verif merge -q --ff-only main >/dev/null 2>&1 || echo "EVAL MERGE FAILED"
export VERIF_ROOT=$E/verif VERIF_TMP=/dev/shm/vcheck-eval; mkdir -p $VERIF_TMP
git -C $E/repo apply $PD/$ID/out/patch.diff || { echo "seeded $ID: patch does not apply"; exit 2; }
mkdir -p /tmp/runlogs2
for c in $CHECKS; do
  (cd $E/verif/harness && cargo build --release --offline >/tmp/runlogs2/build-$ID.log 2>&1) || { echo "seeded $ID -> build failed"; continue; }
  $E/target/release/vcheck $c --tier quick > /tmp/runlogs2/seeded-$ID-$c.log 2>&1; rc=$?
  echo "seeded $ID -> check $c exit=$rc $(grep -m1 '^VIOLATION' /tmp/runlogs2/seeded-$ID-$c.log | sed 's#/root/work/EVAL##') | $(grep -m1 'signature=' /tmp/runlogs2/seeded-$ID-$c.log | cut -c1-160)"
done
git -C $E/repo checkout -q -- .
