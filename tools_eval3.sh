#!/bin/bash
# tools_eval3.sh <patchdir> <ID> [check ids...]: run quick checks against a seeded change in the isolated evaluation area
# /tmp/EVAL/{verif,repo} (worktrees of /verif main and /repo main; the harness there is pointed at /tmp/EVAL/repo), so /repo
# itself stays untouched while other work builds against it. Logs: /tmp/runlogs3/seeded-<ID>-<check>.log
PD=$1; ID=$2; shift 2
CHECKS=${@:-$ID}
E=/tmp/EVAL
git -C $E/repo checkout -q -- . ; git -C $E/repo checkout -q --detach main
git -C $E/verif checkout -q -- . ; git -C $E/verif clean -fdq replays; git -C $E/verif checkout -q --detach main || echo "EVAL CHECKOUT FAILED"
sed -i "s#\"/repo/crates#\"$E/repo/crates#" $E/verif/harness/Cargo.toml
export VERIF_ROOT=$E/verif VERIF_TMP=/dev/shm/vcheck-eval CARGO_TARGET_DIR=$E/target CARGO_NET_OFFLINE=true; mkdir -p $VERIF_TMP /tmp/runlogs3
P=$PD/$ID/out/patch.diff; [ -f "$P" ] || P=$PD/$ID/patch.diff
git -C $E/repo apply $P || { echo "seeded $ID: patch does not apply"; exit 2; }
(cd $E/verif/harness && cargo build --release --offline -j ${EVAL_JOBS:-12} >/tmp/runlogs3/build-$ID.log 2>&1) || { echo "seeded $ID -> build failed"; git -C $E/repo checkout -q -- .; exit 2; }
for c in $CHECKS; do
  $E/target/release/vcheck $c --tier quick ${EVAL_ARGS:-} > /tmp/runlogs3/seeded-$ID-$c.log 2>&1; rc=$?
  echo "seeded $ID -> check $c exit=$rc $(grep -m1 '^VIOLATION' /tmp/runlogs3/seeded-$ID-$c.log | sed "s#$E##") | $(grep -m1 'signature=' /tmp/runlogs3/seeded-$ID-$c.log | cut -c1-160)"
done
git -C $E/repo checkout -q -- .
