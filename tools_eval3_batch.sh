#!/bin/bash
# tools_eval3_batch.sh <patchdir> "<ID ...>" "<check ...>": apply several non-overlapping seeded changes at once in the isolated
# evaluation area (/tmp/EVAL, see tools_eval3.sh), build once, run the listed quick checks. Logs: /tmp/runlogs3/seeded-<IDs>-<check>.log
PD=$1; IDS="$2"; CHECKS="$3"
E=/tmp/EVAL; TAG=$(echo $IDS | tr ' ' '+')
git -C $E/repo checkout -q -- . ; git -C $E/repo checkout -q --detach main
git -C $E/verif checkout -q -- . ; git -C $E/verif clean -fdq replays; git -C $E/verif checkout -q --detach main || echo "EVAL CHECKOUT FAILED"
sed -i "s#\"/repo/crates#\"$E/repo/crates#" $E/verif/harness/Cargo.toml
export VERIF_ROOT=$E/verif VERIF_TMP=/dev/shm/vcheck-eval CARGO_TARGET_DIR=$E/target CARGO_NET_OFFLINE=true; mkdir -p $VERIF_TMP /tmp/runlogs3
for ID in $IDS; do P=$PD/$ID/out/patch.diff; [ -f "$P" ] || P=$PD/$ID/patch.diff; git -C $E/repo apply $P || { echo "seeded $ID: patch does not apply"; git -C $E/repo checkout -q -- .; exit 2; }; done
(cd $E/verif/harness && cargo build --release --offline -j ${EVAL_JOBS:-12} >/tmp/runlogs3/build-$TAG.log 2>&1) || { echo "seeded $TAG -> build failed"; git -C $E/repo checkout -q -- .; exit 2; }
for c in $CHECKS; do
  $E/target/release/vcheck $c --tier quick ${EVAL_ARGS:-} > /tmp/runlogs3/seeded-$TAG-$c.log 2>&1; rc=$?
  echo "seeded [$TAG] -> check $c exit=$rc"; grep -E '^VIOLATION|signature=' /tmp/runlogs3/seeded-$TAG-$c.log | sed "s#$E##" | cut -c1-200 | head -8
done
git -C $E/repo checkout -q -- .
