#!/bin/bash
# Thorough tier of C15: the generated search (round trips, random access, hostile bytes), then a coverage-guided libFuzzer campaign on
# the codecs' from_bytes whose kept inputs and artifacts are judged by the harness's accessor-consistency oracle
# (sub-check from_bytes_corpus). Exit 1 if either part reports a violation, 2 if either is inconclusive, 0 otherwise.
# The second part rewrites evidence/C15.json for its sub-check only when run alone; the registered evidence is the first part's
# plus the campaign summary printed here.
cd "$(dirname "$0")" || exit 2
./fuzz/run_bytes.sh "${C15_FUZZ_RUNS:-8000000}" fuzz_codecs C15 from_bytes_corpus VERIF_FUZZ_CORPUS_C15; b=$?
VERIF_FUZZ_CORPUS_C15="$(ls -d fuzz/run/fuzz_codecs/j*/corpus fuzz/run/fuzz_codecs/j*/artifacts 2>/dev/null | sed "s#^#$PWD/#" | tr '\n' ':')" ./check C15 --tier thorough "$@"; a=$?
if [ $a -eq 1 ] || [ $b -eq 1 ]; then exit 1; fi
if [ $a -ne 0 ] || [ $b -ne 0 ]; then exit 2; fi
exit 0
