#!/usr/bin/env python3
"""tools_keep.py <ID> : store a confirmed seeded change under /verif/seeded/<ID>/ (patch.diff, demo/, meta.json).
meta.json = the author's meta + what was confirmed here (confirm.txt) + which checks caught it (seeded-*.log lines)."""
import json,sys,os,shutil,glob,re
i=sys.argv[1]
# optional: <mutdir> <dest suffix> <runlog dir> (round 2: /tmp/mut2 -r2 /tmp/runlogs2)
mutdir=sys.argv[2] if len(sys.argv)>2 else '/tmp/mut'
suffix=sys.argv[3] if len(sys.argv)>3 else ''
logdir=sys.argv[4] if len(sys.argv)>4 else '/tmp/runlogs'
src=f'{mutdir}/{i}/out'; dst=f'/verif/seeded/{i}{suffix}'
os.makedirs(dst,exist_ok=True)
shutil.copy(os.environ.get('PATCH',f'{src}/patch.diff'),f'{dst}/patch.diff')
if os.path.isdir(f'{dst}/demo'): shutil.rmtree(f'{dst}/demo')
shutil.copytree(f'{src}/demo',f'{dst}/demo')
meta=json.load(open(f'{src}/meta.json'))
conf=open(f'{src}/confirm.txt').read() if os.path.exists(f'{src}/confirm.txt') else ''
meta['breaks_property']=i
meta['confirmed_by_integrator']={
  'scratch_worktree':'/tmp/confirm/repo (git worktree of /repo main; removed afterwards)',
  'demo_without_patch':'pass' if re.search(r'-- demo WITHOUT patch\n(?:.*\n)*?test result: ok',conf) else 'see confirm.txt',
  'demo_with_patch':'fail' if re.search(r'-- demo WITH patch\n(?:.*\n)*?test result: FAILED',conf) else 'see confirm.txt',
  'baseline_suite_with_patch':(re.search(r'baseline: .*',conf).group(0) if re.search(r'baseline: .*',conf) else 'not run'),
  'log':conf[-3000:],
}
det={}
for f in sorted(glob.glob(f'{logdir}/seeded-{i}-*.log')):
    c=f.split('-')[-1][:-4]
    t=open(f).read()
    v=re.search(r'^VIOLATION.*',t,re.M); s=re.search(r'signature=(\S+)',t)
    det[c]={'exit':1 if v else 0,'signature':s.group(1) if (s and v) else None}
meta['detected_by_quick_checks']=det
json.dump(meta,open(f'{dst}/meta.json','w'),indent=1,ensure_ascii=False)
print('kept',dst,det)
