#!/usr/bin/env python3
"""Regenerates MANIFEST.json from the table below (kept as code so the file is always valid)."""
import json, subprocess

CHECKS = {
 # id: (category, technique, text, note, design_ref)
}
def add(i, cat, tech, text, note, ref): CHECKS[i]=(cat,tech,text,note,ref)

add("C15","exploration","property-based round-trip testing (proptest) of every codec against identity / naive reference",
    "Generated sequences per codec (boundary lengths, widths 0..=64, extremes) checked for decode∘encode = id, random access = full decode, from_bytes∘to_bytes = id, compressed = uncompressed property reads, succinct structures vs naive rank/select. Exploration: absence is not established.",
    "Trusts the harness' naive reference implementations; tiered-storage epoch_store.rs is not built (non-default feature).","DESIGN.md §4 C15")

NOT_BUILT = {}

def main():
    props=[json.loads(l) for l in open('/verif/properties.jsonl')]
    hooks=subprocess.run(['git','-C','/repo','log','--format=%H %s','a0dd36c..HEAD'],capture_output=True,text=True).stdout.strip().splitlines()
    hook_commits=[l.split()[0] for l in hooks if 'verif hook' in l]
    m={
     "version":1,
     "setup_cmd":"cd /verif/harness && CARGO_NET_OFFLINE=true cargo build --release --offline",
     "hooks":{
        "guard":"--cfg grafeo_verif",
        "enable":"RUSTFLAGS '--cfg grafeo_verif' set in /verif/harness/.cargo/config.toml; the harness depends on /repo/crates/* by path, so every check rebuilds /repo's working tree with hooks on",
        "baseline_off_cmd":"/verif/baseline.sh",
        "source_commits":hook_commits,
        "add_only":True},
     "engines":[{"name":"vcheck","path":"/verif/harness","serves_properties":sorted(CHECKS),"kind_free_text":"Rust binary: proptest TestRunner (fixed seeds, 16 deterministic shards), explicit oracles/reference models, shrinking to replay files, known-finding signatures"}],
     "checks":[],
     "not_applicable":[],
     "notes":"All checks: `./check <ID>` rebuilds the harness against /repo's working tree first. Exit 0 held / 1 violation / 2 inconclusive (build failure, watchdog). VERIF_SEED selects the PRNG seed. Known findings: /verif/known_findings.json (never written at run time).",
    }
    for p in props:
        i=p['id']
        if i in CHECKS:
            cat,tech,text,note,ref=CHECKS[i]
            m['checks'].append({
              "property_id":i,
              "quick_cmd":f"./check {i} --tier quick",
              "thorough_cmd":f"./check {i} --tier thorough",
              "evidence_file":f"/verif/evidence/{i}.json",
              "replay_cmd_template":f"./check {i} --replay {{path}}",
              "engine":"vcheck",
              "level_claimed":{"category":cat,"text":text,"design_ref":ref},
              "level_note":note,
              "technique":tech})
        else:
            m['not_applicable'].append({"property_id":i,"reason":NOT_BUILT.get(i,"check not built yet (work in progress; see DESIGN.md §7 build order) — the technique applies, the property is simply not claimed until its check exists")})
    json.dump(m,open('/verif/MANIFEST.json','w'),indent=1,ensure_ascii=False)
    try:
        import jsonschema
        jsonschema.validate(m,json.load(open('/root/.vp/MANIFEST.schema.json')))
        print("MANIFEST.json valid;",len(m['checks']),"checks,",len(m['not_applicable']),"not claimed")
    except ImportError:
        print("jsonschema not importable; not validated")
main()
