#!/usr/bin/env python3
"""Regenerates MANIFEST.json from the table below (kept as code so the file is always valid)."""
import json, subprocess

CHECKS = {
 # id: (category, technique, text, note, design_ref)
}
def add(i, cat, tech, text, note, ref): CHECKS[i]=(cat,tech,text,note,ref)

add("C01","exploration","stateful property-based testing (proptest histories) against a snapshot-isolation reference model + visibility-kernel law checks",
    "Generated multi-session histories (2-4 sessions, every mutation kind through API/GQL/Cypher/SPARQL, 17 read kinds at every position, 3 interference modes) compared read by read with an SI model; reads whose footprint is touched by a listed MVCC defect are compared modulo the affected entities and attributed to that finding, all others must match exactly. Plus explicit (epoch, tx) probes of VersionChain / LpgStore versioned API against the documented visibility predicate, and gc-preserves-visibility.",
    "Trusts the harness' SI model; edge deletion through query text is excluded (it deletes a node on the pinned tree); only SnapshotIsolation/Serializable levels; single-threaded interleavings (true parallelism belongs to C20).","DESIGN.md §4 C01")
add("C02","exploration","stateful property-based testing: one generated transaction x 4 endings, full observable-state battery against a reference model",
    "A generated transaction (creates, SET/REMOVE, labels, DETACH DELETE, MERGE, triples) over a generated graph is ended by commit / rollback / refused commit (conflict forced through the transaction manager hook) / session drop; fresh sessions then read everything through 17 read kinds, index lookups and SPARQL, outside and inside a later transaction; the result must equal the model state before (rollback/refusal/drop) or after (commit) the transaction. Residue of in-place writes after rollback is a listed finding, tolerated only on the entities such a write touched.",
    "Shares C01's model and assumptions; the refused commit is provoked via hook H5 because sessions never register writes.","DESIGN.md §4 C02")
add("C03","exploration","model-based property testing of TransactionManager histories + exhaustive small-scope enumeration + threaded commits",
    "Random and exhaustively enumerated (<=3 transactions, 2 entities, N steps) begin/write/commit/abort/gc histories against a first-committer-wins model; gc metamorphic relation (history with gc stripped / gc after every step gives the same decisions); epochs unique and increasing; real threads committing behind barriers; session-level sub-check; ParallelExecutor batches over a multi-version memory must equal the same requests applied in batch order (no lost or doubled write, no hang).",
    "Session layer never registers writes (listed finding).","DESIGN.md §4 C03")
add("C04","exploration","model-based property testing + exhaustive small-scope enumeration with reads and isolation levels; dependency-graph acyclicity",
    "C03's generator with reads and mixed isolation levels against an SSI backward-validation model; the committed Serializable transactions' ww/wr/rw dependency graph must be acyclic; write-skew pairs committed from two real threads (with and without concurrent gc) must never both commit.",
    "Read-only Serializable refusal is a listed finding (its one-line repair contradicts an existing unit test).","DESIGN.md §4 C04")
add("C05","exploration","model-based property testing of persistent histories (open/close cycles, durability modes, checkpoints, rotations) against an abstract graph model",
    "Histories over a persistent database (every mutating API call with every value type, statements, wal_checkpoint, sync, 1-5 reopen cycles, all durability modes) and at WalManager level (max_log_size from 64 B, rotations, checkpoints at generated positions); dump(reopened) == model, bit for bit; fresh ids never collide; values up to 200 KB; a saved copy is reopened too.",
    "Scratch databases live on tmpfs by default (VERIF_TMP); statement mutations are not logged by the engine (listed finding).","DESIGN.md §4 C05")
add("C06","fault_enumeration","enumerated crash images (every truncation length, checkpoint/rotation step mixes, bit flips, continuation) of generated histories, opened in a child worker process",
    "For each generated history the WAL directory image after every op is recorded; crash images are constructed (every byte length of the tail, stale/partial checkpoint temp file, freshly rotated file, bit flips on framing fields and a stride, crash->reopen->write->close->reopen) and opened in a worker process (RLIMIT_AS, deadline); the recovered dump must be a prefix state at or after the last durable point; torn/flipped records never applied.",
    "Crash model = prefixes of what the process wrote + bit flips + enumerated step mixes; sector reordering and fsync lies are not modelled; exhaustive bit flips only for logs <= 512 B.","DESIGN.md §4 C06")
add("C08","exploration","differential property-based testing: generated graphs x query ASTs rendered to 4 languages vs an independent reference evaluator; cross-language agreement",
    "Graphs (0-12 nodes, self-loops, parallel edges, missing/heterogeneous properties) x queries from the core grammar (incl. one OPTIONAL MATCH chain with its own WHERE in GQL/Cypher; 80 % of two sub-checks' queries are shaped after what Gremlin and GraphQL can express) rendered to GQL/Cypher/Gremlin/GraphQL, compared as multisets (sequences on ORDER BY keys; validity predicate under SKIP/LIMIT) with a nested-loop three-valued reference evaluator; known engine defects are recognised by dynamic signatures (the engine's rows must equal the reference evaluated with exactly that defect).",
    "Trusts the reference evaluator; Int 2 and Float 2.0 are not distinguished in results; Gremlin/GraphQL express only a fragment of the grammar (about 70 % / 60 % of the shaped queries, 10 % / 2 % of the full grammar).","DESIGN.md §4 C08")
add("C11","exploration","metamorphic property-based testing (ternary-logic partitioning, count, DISTINCT, SKIP/LIMIT windows, UNION) in five languages",
    "Relations between results of related queries on one database: Q = Q∧p ⊎ Q∧¬p ⊎ Q∧(p IS NULL); count = rows; DISTINCT = set of rows; SKIP s LIMIT n = slice of the ordered result (graphs of 2047/2048/2049/4097 nodes cross the chunk boundary; a second window sub-check runs filtered scans over 2049-6500 nodes with bounds around the chunk size, ordered and unordered, returning a property or the node itself); UNION ALL = concatenation.",
    "No reference evaluator: only the relations are asserted; an Err is 'cannot express'.","DESIGN.md §4 C11")
add("C15","exploration","property-based round-trip testing (proptest) of every codec against identity / naive reference; thorough tier adds a coverage-guided libFuzzer campaign on every from_bytes whose kept inputs are judged by the accessor-consistency oracle",
    "Generated sequences per codec (boundary lengths, widths 0..=64, extremes) checked for decode∘encode = id, random access = full decode, from_bytes∘to_bytes = id, compressed = uncompressed property reads, succinct structures vs naive rank/select. Exploration: absence is not established.",
    "Trusts the harness' naive reference implementations; tiered-storage epoch_store.rs is not built (non-default feature).","DESIGN.md §4 C15")

add("C16","exploration","algebraic-law property testing of value wrappers + bit-exact round-trips through every serialisation + operator-level consequences",
    "HashableValue/OrderableValue laws (equivalence, total order, eq<=>cmp, eq=>hash) on pairs/triples biased to near-equal values; bit-for-bit round-trips through bincode (WAL records, snapshots), spill serializer, serde_json; DISTINCT/GROUP BY/sort/index operators neither merge unequal nor split equal values.",
    "cdylib/Python/Node/wasm JSON conversions are not linked; SortOperator cross-type/NaN/timestamp ordering are listed findings.","DESIGN.md §4 C16")
add("C18","exploration","model-based property testing of HNSW histories + reference distance kernels + construction-derived quantiser bounds",
    "insert/re-insert/remove/search histories on HnswIndex/QuantizedHnswIndex (4 metrics, dims 1..257, k/ef 0..>n): results <= k, distinct, live, true distance, ascending, count = min(k, reachable) via the layer-0 graph hook; brute-force kNN exact; SIMD kernels vs f64 definitions; batch = one-by-one; scalar/binary/product quantiser bounds that follow from their construction.",
    "Distance tolerance 1e-3 relative + conditioning floor; HashMap-order-dependent entry-point choice makes graph shape vary between processes (oracle is a validity predicate).","DESIGN.md §4 C18")
add("C19","exploration","property-based testing of every bundled algorithm against brute-force definitions on generated multigraphs",
    "Directed multigraphs (self-loops, parallel/anti-parallel edges, components, weight regimes) x all sources/targets: shortest paths (4 algorithms agree, minimal, paths real), components, topological sort, MST (Kruskal/Prim), max-flow = min-cut, min-cost flow, traversals, triangles/k-core/bridges/articulation, PageRank/closeness/betweenness, ShortestPathOperator, community partitions.",
    "Conventions (undirected reading, default weight, simple-graph bridges) are adopted from the code's documentation.","DESIGN.md §4 C19")
add("C07","exploration","round-trip / differential property testing of export-import, save-open, to_memory + exhaustive truncations and bit flips of small snapshots judged by an independent format reader (worker process); thorough tier adds a coverage-guided libFuzzer campaign on import_snapshot whose kept inputs are judged by the same oracle",
    "Graphs reached by generated mutation histories (sparse ids, every value type, committed session transactions) are exported/imported, saved/opened and copied to memory: dumps equal the model and the source, a battery of queries answers the same, export is deterministic, the source is unchanged, next ids are fresh. Hostile bytes (every truncation, every single-bit flip of 20+ small snapshots; generated surgery on lengths/ids/discriminants, splices, deep nesting) are imported in a child process: Ok exactly when an independent reader of the byte format accepts them, never a panic/abort/hang.",
    "Trusts the harness' own snapshot-format reader; two import-robustness defects (unchecked declared string length, unbounded nesting) are listed findings.","DESIGN.md §4 C07")
add("C09","exploration","differential property testing: every generated (graph, query) under all 8 optimizer switch sets x 3 statistics states x factorized on/off",
    "The pipeline is assembled from public pieces (translate -> bind -> optimize -> plan -> execute); every distinct optimized plan is executed flat and factorized and must return the same multiset (same sequence on ORDER BY keys) as the unoptimized plan; read parts of MATCH..SET/DELETE run on per-execution rebuilt databases and the resulting database dumps are compared.",
    "Join reordering and projection push-down are inert on every translated plan in this tree (no front end emits join conditions), so they are exercised but cannot change a plan; GQL and Cypher only.","DESIGN.md §4 C09")
add("C10","exploration","differential property testing across physical configurations (index subsets, min/max summaries live/inert, index/range shortcuts reachable/blocked, factorized on/off) and plan-cache histories",
    "For one graph state every physical configuration must return the same multiset; session histories (execute, mutate, create/drop index, same text through another front end) must answer like a cold session on an identically rebuilt database.",
    "Relies on identically rebuilt databases answering identically.","DESIGN.md §4 C10")
add("C12","exploration","grammar-aware fuzzing of all five front ends in a child worker process (RLIMIT_AS, CPU-time hang rule) + libFuzzer targets for the thorough tier",
    "Per language: valid skeletons, token-level mutation, every char-boundary truncation (exhaustive), nesting to depth 2000, numeric extremes, arithmetic/SKIP/LIMIT/range templates over extreme operands, non-ASCII/control characters, unterminated openers; parameter maps of every value type; each case against an empty and a small database in a worker: the call must return Ok or Err, never panic, abort, overflow the stack, exhaust memory or hang.",
    "Work that is huge by definition (variable-length bounds > 64 on the cyclic small graph, > 300 chained clauses) is excluded; a hang is 20 CPU-seconds on one request.","DESIGN.md §4 C12")
add("C13","exploration","model-based property testing of RdfStore histories against a triple set + differential testing of SPARQL against an independent algebra evaluator + TripleRing vs set",
    "Store histories (insert/remove/clear/transactional ops, object index on/off): all 8 pattern shapes, contains/len/subjects/predicates/objects/find_with_pending equal the set after every step. Generated SPARQL (BGP joins, OPTIONAL, FILTER, UNION, DISTINCT, ORDER/LIMIT/OFFSET, COUNT/GROUP BY, INSERT/DELETE DATA, DELETE/INSERT WHERE) against a SPARQL 1.1 algebra evaluator on full terms; TripleRing answers = set answers.",
    "Result rows are compared on lexical form only (all the engine exposes); FILTER outcomes that are operator-table type errors are not judged.","DESIGN.md §4 C13")
add("C14","exploration","model-based stateful property testing of LpgStore / ChunkedAdjacency / GrafeoDB histories with a full cross-check battery after every step",
    "Histories of 1-400 ops (with/without backward adjacency, index create/drop, statistics, bursts across the 64-entry chunk, deletes with live edges, re-adds) against an abstract model: label lookups, adjacency both directions, degrees, index vs scan, min/max pruning never hides a match, counts, deleted ids nowhere, validate(); bare ChunkedAdjacency with compaction/freezing against a multiset model.",
    "delete_node does not cascade (documented); set_*_property on a deleted id is a listed finding.","DESIGN.md §4 C14")
add("C17","exploration","differential property testing of operator chains across pull / push / parallel / spilling configurations against a naive reference; explicit worker assignments for the merge functions",
    "Generated tables (0..4200 rows quick, chunk and morsel boundaries, duplicate/NULL keys) x operator chains x {pull, push Pipeline, ParallelPipeline 1-16 workers} x chunk splits x spill thresholds: every configuration equals the reference as a multiset (sequence on sort keys); k-way merge / partial aggregates / distinct sets merged from generated partitions equal their sequential counterparts; spill directory empty after cleanup/drop.",
    "OS-level interleavings inside ParallelPipeline are sampled by repetition (3x), not enumerated; mixed-type sort keys are a listed finding (shared with C16).","DESIGN.md §4 C17")
add("C20","exploration","schedule-controlled concurrency testing (generated programs + generated schedules at instrumented yield points) with a linearizability oracle; plus free-running threads",
    "2-3 logical threads x 1-3 generated ops on shared entities of LpgStore / RdfStore / BufferManager run under a harness-owned scheduler (hooks H2/H3: yield points between the critical sections of each operation); every return value and the final state (C14's battery / all RDF pattern shapes / allocation accounting) must be explained by some sequential order of the operations (all orders enumerated). Free mode: real threads on one GrafeoDB: ids unique, acknowledged creations visible, derived structures agree with primary data, commit epochs unique, no panic or deadlock. Every schedule of two logical threads up to a fixed depth is enumerated for generated operation pairs; threads first-use a fresh label / edge type (catalog interning windows are yield points); TransactionManager commits from real threads; free-running component sub-checks (sessions, WAL manager, HNSW, catalog, arena, memory grants, query cache).",
    "Only interleavings at the instrumented yield points are owned by the harness; DETACH DELETE is two store calls and is not treated as one atomic operation.","DESIGN.md §4 C20")
NOT_BUILT = {}

def main():
    props=[json.loads(l) for l in open('/verif/properties.jsonl')]
    hooks=subprocess.run(['git','-C','/repo','log','--format=%H %s','a0dd36c..HEAD'],capture_output=True,text=True).stdout.strip().splitlines()
    hook_commits=[l.split()[0] for l in hooks if 'verif hook' in l]
    m={
     "version":1,
     "setup_cmd":"cd /verif/harness && CARGO_NET_OFFLINE=true cargo build --release --offline",
     "hooks":{
        "guard":"--cfg grafeo_verif",
        "enable":"RUSTFLAGS '--cfg grafeo_verif' set in /verif/harness/.cargo/config.toml; the harness depends on /repo/crates/* by path, so every check rebuilds /repo's working tree with hooks on",
        "baseline_off_cmd":"/verif/baseline.sh",
        "source_commits":hook_commits,
        "add_only":True},
     "engines":[{"name":"vcheck","path":"/verif/harness","serves_properties":sorted(CHECKS),"kind_free_text":"Rust binary: proptest TestRunner (fixed seeds, 16 deterministic shards), explicit oracles/reference models, shrinking to replay files, known-finding signatures"}],
     "checks":[],
     "not_applicable":[],
     "notes":"All checks: `./check <ID>` rebuilds the harness against /repo's working tree first. Exit 0 held / 1 violation / 2 inconclusive (build failure, watchdog). VERIF_SEED selects the PRNG seed. Known findings: /verif/known_findings/<ID>.json (never written at run time).",
    }
    for p in props:
        i=p['id']
        if i in CHECKS:
            cat,tech,text,note,ref=CHECKS[i]
            m['checks'].append({
              "property_id":i,
              "quick_cmd":f"./check {i} --tier quick",
              "thorough_cmd":({"C12":"./check_c12_thorough.sh","C07":"./check_c07_thorough.sh","C15":"./check_c15_thorough.sh"}.get(i, f"./check {i} --tier thorough")),
              "evidence_file":f"/verif/evidence/{i}.json",
              "replay_cmd_template":f"./check {i} --replay {{path}}",
              "engine":"vcheck",
              "level_claimed":{"category":cat,"text":text,"design_ref":ref},
              "level_note":note,
              "technique":tech})
        else:
            m['not_applicable'].append({"property_id":i,"reason":NOT_BUILT.get(i,"check not built yet (work in progress; see DESIGN.md §7 build order) — the technique applies, the property is simply not claimed until its check exists")})
    json.dump(m,open('/verif/MANIFEST.json','w'),indent=1,ensure_ascii=False)
    try:
        import jsonschema
        jsonschema.validate(m,json.load(open('/root/.vp/MANIFEST.schema.json')))
        print("MANIFEST.json valid;",len(m['checks']),"checks,",len(m['not_applicable']),"not claimed")
    except ImportError:
        print("jsonschema not importable; not validated")
main()
