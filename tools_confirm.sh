#!/bin/bash
# tools_confirm.sh <ID>: confirm a seeded change independently in a scratch worktree (/tmp/confirm/repo):
#   1. the patch applies and the workspace tests build;  2. the pinned baseline suite passes with it;
#   3. the demonstration fails with the patch and passes without it.
# Writes $MUTDIR/<ID>/out/confirm.txt (MUTDIR defaults to /tmp/mut; CONFIRM_DIR, default /tmp/confirm, is the scratch lane;
# PATCH overrides the patch file, e.g. one adapted to the current /repo main)
ID=$1
OUT=${MUTDIR:-/tmp/mut}/$ID/out
C=${CONFIRM_DIR:-/tmp/confirm}
W=$C/repo
PATCH=${PATCH:-$OUT/patch.diff}
export CARGO_TARGET_DIR=$C/target CARGO_NET_OFFLINE=true
[ -d $W ] || git -C /repo worktree add -q --detach $W main
cd $W || exit 2
git checkout -q --detach main && git reset -q --hard main && git clean -qfd crates
{
echo "== confirm $ID at $(git rev-parse --short HEAD) $(date -u +%FT%TZ)"
demo=$(ls $OUT/demo/*.rs 2>/dev/null | head -1)
crate=$(grep -ho "crates/grafeo-[a-z]*/tests" $OUT/demo/RUN.md 2>/dev/null | head -1)
[ -z "$crate" ] && crate=crates/grafeo-engine/tests
name=$(basename "$demo" .rs)
pkg=$(echo $crate | cut -d/ -f2)
feat=""; case $pkg in grafeo-engine|grafeo-adapters) feat="--features full";; grafeo-core) feat="--all-features";; esac
echo "demo=$demo crate=$crate pkg=$pkg"
cp "$demo" $crate/ || exit 2
echo "-- demo WITHOUT patch"
cargo test -p $pkg --offline $feat --test $name 2>&1 | grep -E "^test result|^test .*(FAILED|ok)$|error(\[|:)" | head -12
git apply $PATCH || { echo "PATCH DOES NOT APPLY"; exit 2; }
echo "-- demo WITH patch"
cargo test -p $pkg --offline $feat --test $name 2>&1 | grep -E "^test result|^test .*(FAILED|ok)$|error(\[|:)" | head -12
rm -f $crate/$name.rs
echo "-- baseline suite WITH patch"
REPO=$W /verif/baseline.sh $C/junit 2>&1 | tail -4
git checkout -q -- . ; git clean -qfd crates
} > $OUT/confirm.txt 2>&1
cat $OUT/confirm.txt
