#!/bin/bash
# tools_seeded.sh <ID> [check ids...]: apply /tmp/mut/<ID>/out/patch.diff (or /verif/seeded/<ID>/patch.diff) to /repo,
# run the quick checks, undo. Prints one line per check.
ID=$1; shift
CHECKS=${@:-$ID}
P=/verif/seeded/$ID/patch.diff; [ -f "$P" ] || P=/tmp/mut/$ID/out/patch.diff
cd /repo || exit 2
git diff --quiet || { echo "repo dirty"; exit 2; }
git apply "$P" || { echo "patch does not apply"; exit 2; }
for c in $CHECKS; do
  /verif/check $c --tier quick > /tmp/runlogs/seeded-$ID-$c.log 2>&1; rc=$?
  echo "seeded $ID -> check $c exit=$rc $(grep -m1 '^VIOLATION' /tmp/runlogs/seeded-$ID-$c.log) | $(grep -m1 'signature=' /tmp/runlogs/seeded-$ID-$c.log | cut -c1-160)"
done
git -C /repo checkout -- .
